#!/bin/bash
# usage: tools/try_mutant.sh <patch.diff> <ID> [<ID>...]   — applies patch to /repo, runs quick checks, reverts.
P="$1"; shift
cd /repo || exit 9
if [ -n "$(git status --porcelain --untracked-files=no)" ]; then echo "REPO DIRTY"; exit 9; fi
git apply "$P" || { echo "PATCH DOES NOT APPLY"; exit 8; }
trap 'git -C /repo checkout -- . ' EXIT
for id in "$@"; do
  out=$(cd /verif && MCHECK_NO_CONFIRM=${MCHECK_NO_CONFIRM:-} ./run_check "$id" ${TIER:-quick} 2>&1); rc=$?
  echo "== $id rc=$rc"; echo "$out" | grep -E "VIOLATION|KNOWN-FINDING|HARNESS|detail" | cut -c1-400 | head -${LINES_MAX:-8}
done
