#!/bin/bash
# usage: tools/eval_agent.sh <PROP> [extra check ids]  — runs the property's check on each agent mutant under /tmp/wt_out/<PROP>/m*
P="$1"; shift
for d in ${OUTROOT:-/tmp/wt_out}/$P/m*/; do
  m=$(basename $d)
  echo "#### $P $m: $(grep -m1 -v '^\s*$' $d/notes.md | cut -c1-150)"
  pf=$d/patch.diff; [ -f $d/patch_rebased.diff ] && pf=$d/patch_rebased.diff; LINES_MAX=${LINES_MAX:-4} /verif/tools/try_mutant.sh $pf $P "$@" 2>&1 | cut -c1-300
done
