#!/bin/bash
# usage: tools/confirm_seed.sh <PROP> <mN> <caught_by...>  — independently confirms an agent mutant in its scratch worktree
# (demo 0 on clean, 1 on mutated, test-suite failing set unchanged) and files it under /verif/seeded/<PROP>-<mN>/.
P="$1"; M="$2"; shift 2
WT=${WTROOT:-/tmp/wt}/$P; SRC=${OUTROOT:-/tmp/wt_out}/$P/$M; TAG=${SEEDTAG:-}
BASE_FAIL="tests/test_config.py::TestDefaultCodeFilter::test_excludes_site_packages tests/test_tracing.py::TestTraceCalls::test_access_property tests/test_tracing.py::TestTraceCalls::test_callee_throws_recovers tests/test_tracing.py::TestTraceCalls::test_caller_handles_callee_exception tests/test_tracing.py::TestTraceCalls::test_generator_trace tests/test_tracing.py::TestTraceCalls::test_nested_callee_throws_recovers tests/test_tracing.py::TestTraceCalls::test_return_none"
[ -d "$WT" ] || git -C /repo worktree add --detach "$WT" "${BASE_REV:-HEAD}" -q
cd "$WT" || exit 9
git checkout -q --detach $(git -C /repo rev-parse HEAD) 2>/dev/null
PATCH=$SRC/patch.diff; [ -f $SRC/patch_rebased.diff ] && PATCH=$SRC/patch_rebased.diff
git checkout -q -- . ; [ -z "$(git status --porcelain)" ] || { echo "worktree dirty"; exit 9; }
want=$(PYTHONPATH=$WT /venv/bin/python -m pytest -q -p no:cacheprovider 2>&1 | tail -15 | grep '^FAILED\|^ERROR' | sed 's/ - .*//; s/^FAILED //; s/^ERROR //' | sort | tr '\n' ' ')
PYTHONPATH=$WT timeout 600 /venv/bin/python -W ignore $SRC/demo.py >/tmp/confirm_$P$M.clean 2>&1; c=$?
git apply $PATCH || { echo "patch does not apply"; exit 8; }
PYTHONPATH=$WT timeout 600 /venv/bin/python -W ignore $SRC/demo.py >/tmp/confirm_$P$M.mut 2>&1; m=$?
PYTHONPATH=$WT /venv/bin/python -m pytest -q -p no:cacheprovider 2>&1 | tail -15 > /tmp/confirm_$P$M.tests
fails=$(grep '^FAILED\|^ERROR' /tmp/confirm_$P$M.tests | sed 's/ - .*//; s/^FAILED //; s/^ERROR //' | sort | tr '\n' ' ')
summary=$(tail -1 /tmp/confirm_$P$M.tests)
git checkout -q -- .
ok=1; [ "$c" = 0 ] || ok=0; [ "$m" = 1 ] || ok=0; [ "$fails" = "$want" ] || ok=0
echo "$P $M demo_clean=$c demo_mut=$m tests_same=$([ "$fails" = "$want" ] && echo yes || echo NO) :: $summary"
if [ $ok = 1 ]; then
  D=/verif/seeded/$P-$TAG$M; mkdir -p $D; cp $PATCH $D/patch.diff; cp $SRC/demo.py $D/; cp $SRC/notes.md $D/notes.md
  /venv/bin/python - "$P" "$M" "$summary" "$SRC" "$D" "$@" <<'PY'
import json,sys
P,M,summary,SRC,D,*caught=sys.argv[1:]
notes=open(f'{SRC}/notes.md').read()
json.dump({"property":P,"origin":"independent sub-agent given only the property text and a scratch worktree",
 "needs_to_manifest":notes.strip()[:1500],
 "confirmed":{"demo_exit_clean_tree":0,"demo_exit_mutated_tree":1,"test_suite_with_mutant":summary,"failing_set_equals_baseline_always_fail":True,
   "how":"tools/confirm_seed.sh: scratch worktree, demo on clean tree, git apply, demo again, full pytest run, failing-test set compared with BASELINE always_fail"},
 "caught_by":caught}, open(f'{D}/meta.json','w'), indent=1)
PY
fi
