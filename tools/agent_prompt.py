#!/venv/bin/python
"""Prints the prompt given to a fresh mutation sub-agent for one property (only the property text + its own worktree)."""
import json, sys
pid = sys.argv[1]
n = sys.argv[2] if len(sys.argv) > 2 else "3"
WT = sys.argv[3] if len(sys.argv) > 3 else "/tmp/wt"
OUT = sys.argv[4] if len(sys.argv) > 4 else "/tmp/wt_out"
import glob, os
avoid = []
for d in sorted(glob.glob(f"/verif/seeded/{pid}-*m*")):
    try:
        first = [l for l in open(os.path.join(d, "notes.md")).read().splitlines() if l.strip()][0]
        avoid.append(first.lstrip("# ").strip())
    except Exception:
        pass
AVOID = ""
if len(sys.argv) > 3 and avoid:
    AVOID = "\n\nAn earlier round already produced the following changes for this property; do NOT repeat them or close variants of them - look for different mechanisms, different code locations and different triggering conditions. Good hunting grounds: helper modules that feed this behaviour (compat.py, util.py, config.py, cli.py glue, db/base.py), state carried between calls or between CLI invocations in one process, error/exception paths, behaviour that only differs for a rarely used option or API entry point (e.g. StubIndexBuilder, `stub --diff`, `--sample-count`, `--limit`, `list-modules`, `monkeytype run -m`, custom Config subclasses), two small edits in different places that are each harmless alone, and inputs at the boundary of what the property covers:\n" + "\n".join("  - " + a for a in avoid)
p = [json.loads(l) for l in open('/verif/properties.jsonl') if l.strip()]
p = [x for x in p if x['id'] == pid][0]
print(f"""You are helping to evaluate a verification effort for the Python project Instagram/MonkeyType (records runtime types via sys.setprofile, shrinks/rewrites them, stores them in SQLite, emits/applies type stubs).

Your own private git worktree of the project is at {WT}/{pid} (a detached checkout of the pinned commit). Work ONLY inside {WT}/{pid} and {OUT}/{pid}. Do NOT read, list or touch anything under /verif or /repo (your work must be independent of what exists there). There is no network.

How to run things:
  * interpreter: /venv/bin/python (CPython 3.12). Always run with the worktree first on the path, e.g.
      cd {WT}/{pid} && PYTHONPATH={WT}/{pid} /venv/bin/python -W ignore your_demo.py
    and make your demo assert that `monkeytype.__file__` starts with {WT}/{pid}/ (an editable install of another checkout exists in /venv; PYTHONPATH takes precedence over it).
  * the project's test-suite: cd {WT}/{pid} && PYTHONPATH={WT}/{pid} /venv/bin/python -m pytest -q -p no:cacheprovider 2>&1 | tail -15
    On the unmodified checkout exactly 1 test fails (known, pre-existing, ignore it): tests/test_config.py::TestDefaultCodeFilter::test_excludes_site_packages. All other tests pass (summary line: "1 failed, 378 passed, 2 skipped, 1 xpassed"). (Compare the list of failing tests, printed at the end of the run.)

The property under study (it is supposed to hold for the project):

  id: {p['id']}
  title: {p['title']}
  statement: {p['statement']}
  quantifier: {p['quantifier']['text']}
  code anchors: {json.dumps(p['anchors']['mechanism'])}

YOUR TASK: produce {n} different, independent, REALISTIC changes ("mutants") to the project's source (files under monkeytype/ only, never tests) such that each one
  (1) still imports/compiles and the existing test-suite result is unchanged (the same tests pass, the same 1 fails) — run the whole suite to be sure;
  (2) BREAKS the property above (makes MonkeyType violate the statement for at least one input / history / configuration);
  (3) is the kind of plausible regression a developer could introduce (refactoring slip, off-by-one, wrong variable, dropped special case, changed default, caching, reordered statements, too-narrow/too-broad condition), not sabotage that ordinary use exposes at once. Prefer changes that need something specific to manifest: a particular combination of input shapes, a multi-step sequence of operations, an unusual but legitimate input, a particular configuration value, or two cooperating sites that each look fine alone. Each mutant should break the property through a DIFFERENT mechanism / code location. Small diffs (1-15 changed lines) are best. At least one of your mutants must consist of two cooperating edits in different functions or files (each harmless alone), and at least one must only manifest after a multi-step history (several calls, batches, CLI invocations or tracing sessions in one process, or two processes), or under a particular environment answer (an error raised by a collaborator, a rarely used option, an unusual but legitimate Python construct).

For each mutant i (1..{n}) write into {OUT}/{pid}/m<i>/ :
  * patch.diff  — `git diff` of the worktree against HEAD for this mutant alone (must apply with `git apply` to a clean checkout);
  * demo.py     — a small self-contained program (may create temp files/dirs; must clean up) that exits with status 1 and prints what went wrong when run against the mutated tree, and exits 0 against the unmodified tree. It should demonstrate the property violation in terms of the property statement (observable behaviour through the project's API/CLI), not by inspecting the source text;
  * notes.md    — 5-10 lines: what was changed, why it breaks the property, what specific input/sequence/configuration is needed for it to manifest, and the exact test-suite summary line you observed with the mutant applied.
Between mutants restore the worktree with `git -C {WT}/{pid} checkout -- .` (and verify `git -C {WT}/{pid} status --short` is clean). Leave the worktree clean at the end. Verify for every mutant yourself: demo exits 0 on the clean tree, 1 on the mutated tree, and the test suite is unchanged with the mutant.

{AVOID}

Finish with a short report listing, per mutant: one-line description, files touched, demo result clean/mutated, test-suite summary line.""")
