#!/venv/bin/python
"""Regenerates MANIFEST.json from the table below (kept in one place so it stays valid)."""
import json
import sys
from pathlib import Path

V = Path(__file__).resolve().parents[1]
sys.path.insert(0, str(V))

CHECKS = {
    "C04": dict(
        technique="explicit enumeration of all value multisets x k x orderings against real get_type/shrink_types (bounded exhaustive model checking, E1)",
        text="Every multiset of 1..3 (thorough ..4) grammar values up to nesting depth 2 (3) x six size limits x every permutation/duplication ordering is run through the real inference and judged by a reference conformance oracle; a coverage statement over the stated alphabet, not a sample. Traces are also merged the way the pipeline collects them (as a set inside StubIndexBuilder). Values whose class exists once per instance (mock objects) have a stage of their own.",
        note="Trusts the reference oracle mcheck/oracles/types.py and the value grammar (DESIGN section 3); values outside the grammar are out of reach.",
        ref="DESIGN.md section 4 C04",
    ),
    "C05": dict(
        technique="explicit enumeration of all value multisets x k, witness oracle walking type and values in lock-step (bounded exhaustive, E1)",
        text="Same exhaustive space as C04; each inferred type is walked with the observed values and every union alternative, class, Any and required/optional key must be witnessed. Rewriter-less entry points include really traced calls on one list object mutated in place and a duplicate-heavy store under a small query limit.",
        note="Trusts the witness rules of DESIGN C05 (subset-existential witness for union alternatives).",
        ref="DESIGN.md section 4 C05",
    ),
    "C06": dict(
        technique="explicit enumeration of dict shapes (0..12 keys, string/non-string/mixed, nested, second-level merges) x k x 7 pipeline stages incl. the real tracer, SQLite store and CLI (bounded exhaustive, E1)",
        text="Every dict shape of the grammar, alone and in multisets whose merged key sets straddle each limit, is pushed through get_type, shrink_types, the row and SQLite round trips, stub rendering, the real tracer and the CLI with the limit supplied only by the Config; every TypedDict node and rendered class is inspected. Plus one generator call yielding several oversize dicts of small dicts, through every shipped rewriter.",
        note="Assumes one Config (the same k) for tracing and stub generation; trusts ast for parsing stubs.",
        ref="DESIGN.md section 4 C06",
    ),
    "C07": dict(
        technique="explicit enumeration of a type grammar (unions of 2..8 members in every rotation) and of all inferred types x 7 rewriters + default chain + 49 chained pairs (bounded exhaustive, E1)",
        text="Every grammar type and every distinct type inferred from grammar values is rewritten by every shipped rewriter, the default chain and every ordered pair; witnesses of the input must stay members, a change requires the documented trigger, chains must equal sequential composition. Plus histories of 2..3 generations of one class hierarchy rebuilt under the same names (rewriter state lives across the history).",
        note="Reads C[Any] as the empty container (MonkeyType's convention); trusts witnesses()/member().",
        ref="DESIGN.md section 4 C07",
    ),
    "C08": dict(
        technique="explicit enumeration of all inferred / rewritten / grammar types and fixture call traces through the real encoder and decoder (bounded exhaustive, E1)",
        text="Every distinct inferred type (all k), every rewritten form, the type grammar and hidden-builtin look-alikes are encoded, decoded and re-encoded; CallTraces over every fixture function kind with return/yield absent, NoneType or a type are round-tripped; compared structurally, never with ==.",
        note="Trusts struct(); union member order is normalised in JSON comparisons (typing caches make it history dependent).",
        ref="DESIGN.md section 4 C08",
    ),
    "C11": dict(
        technique="explicit enumeration of type builders x class pairs/triples from a module-name-collision fixture package x targets, rendered stubs evaluated in their own namespace (bounded exhaustive translation validation, E1)",
        text="Every builder (containers, Optional/Union, Type, Callable, Iterator/Generator, TypedDicts at every container position) over every ordered pair of 14 classes from modules whose names are suffixes of one another is rendered through the real ModuleStub; the import block is executed and every annotation evaluated with only the stub's names, then compared structurally with the rendered type. Builders include TypedDict fields holding containers of TypedDicts and generics rendered through repr (Callable[[List[a]], Optional[b]], Mapping, Sequence, Awaitable).",
        note="Trusts stubeval/ast; classes with the same short name in two modules are outside the alphabet.",
        ref="DESIGN.md section 4 C11",
    ),
    "C12": dict(
        technique="explicit enumeration of all valid parameter lists x function kinds x class depths, all traced subsets per generated module, stubs compared with inspect.signature (bounded exhaustive, E1)",
        text="Every valid parameter list of up to 3/4 parameters over the six kinds (plus long-name lists that wrap), for every function kind and class depth 0..2, is generated as real modules; for every subset of traced functions (and varying traced parameters) the rendered stub must parse and mirror names, kinds, order, defaults, decorators, async and an unannotated receiver. Same-named functions also through StubIndexBuilder, and one StubIndexBuilder across edits and reloads of the source.",
        note="Trusts ast and inspect.signature.",
        ref="DESIGN.md section 4 C12",
    ),
    "C13": dict(
        technique="explicit enumeration of the annotated? x traced? x strategy x result-kind matrix over generated signatures, API and CLI flags (bounded exhaustive, E1)",
        text="Every subset of {receiver, parameters, return} annotated with each of five annotation kinds x every traced subset x REPLICATE/OMIT/IGNORE x five result kinds x three function kinds is generated as real source and run through the real stub builder (and the CLI flags); each position is compared with the expectation table of the property. Plus dotted string / postponed source annotations next to positions traced with classes from modules named like a path component.",
        note="The IGNORE/annotated/untraced cell is left open as the property leaves it; Optional[T] accepted for a traced None-default parameter.",
        ref="DESIGN.md section 4 C13",
    ),
    "C09": dict(
        technique="explicit-state BFS over store histories with every query in every state + choice-point exploration of a second connection at every SQLite VM step + the writer as a separate process paused at every VM step while this process acts (real inter-process file locks) + SIGKILL/abort at every VM step (and every mutating syscall) of a batch insert, against a Counter reference model",
        text="Histories of add/reopen/open through 1..3 connections are explored breadth-first on a real database file and in every state every filter(m,p,n) of the alphabet and list_modules is compared with a reference model; a second connection reads/writes at every VM step of an insert; a forked writer is killed at every VM step (thorough: every mutating syscall via strace injection) and the file is inspected through an independent connection; every step is also aborted through the progress handler. A second BFS runs add / next-calendar-day / reopen over two stores that share one file but not a table (default table via make_store, custom table via the constructor; the clock of add is an explorer-owned seam), and a 1200-row batch is added whole after several prefixes. The writer is also run as a separate forked process that the explorer pauses at every VM step of its insert while this process reads or writes through its own connection. Also a database file that already exists in the released layout.",
        note="Trusts SQLite's locking and journalling; 2..3 connections and 2 processes explored exhaustively, the '16 processes' end of the quantifier is covered by commutation of whole transactions only; process kill, not power loss.",
        ref="DESIGN.md section 4 C09",
    ),
    "C17": dict(
        technique="exhaustive enumeration of every library .py file (and symlinked / near-miss spellings) against an independent path oracle + explicit enumeration of filter-cache call histories + all 64 subset filters and a real `monkeytype run` (bounded exhaustive, E1/E3)",
        text="Every .py file under the installed interpreter's three library roots (thorough: every code object really compiled from them), frozen/builtin code, synthetic file names, user files reached directly, through symlinks and through look-alike paths, allow-lists of 0..3 names, every ordered pair/triple of filter calls on equal code objects from files with different verdicts starting from a cleared cache, a real `monkeytype run` of a script (its functions are __main__; imported modules named main, m, a, _, __main__x ... are not), all 64 custom subset filters, and every pair of subset filters over nested tracing blocks. Verdicts are also compared under other working directories and for functions that share a name.",
        note="Enumerates the file universe of this interpreter only; allow-list names are package/module names below the import root.",
        ref="DESIGN.md section 4 C17",
    ),
    "C10": dict(
        technique="explicit enumeration of stores (subsets of valid rows x subsets of 32 stale-row kinds x insertion orders) against the real CLI with a differential oracle (bounded exhaustive, E1+E4)",
        text="Every subset of four valid rows combined with every subset of up to 2 (thorough 3) of 32 kinds of stale rows, in three insertion orders, is written directly into a database and run through stub / stub -v / stub module:qualname / apply; stdout, the applied file, the exit status and the exact count of skipped rows are compared with the run on the decodable rows alone. Commands include stub --diff and the -v commands over a custom store whose thunks offer only to_trace().",
        note="Corrupt rows (invalid JSON, wrong arity) are outside the property's list; identical rows are one trace.",
        ref="DESIGN.md section 4 C10",
    ),
    "C02": dict(
        technique="explicit-state BFS over driver-operation sequences on live generator/coroutine frames + exhaustive enumeration of call shapes, real CallTracer under real profile events, judged by a sys.monitoring ground-truth recorder (E3 + E1)",
        text="Every function kind x parameter list x exit kind x call style, nesting/recursion/propagation scenarios and twin modules are run under the real tracer; all sequences of next/send/throw/close/drop on every single and ordered pair of thirteen generator/coroutine templates (incl. a coroutine rebinding its parameter between awaits, a types.coroutine generator, and generators that meet a value on which type collection itself fails) are explored breadth-first by replay, with the tracer's whole mutable state in the state key. After every driver operation the logged traces must equal the frames the interpreter reports as completed, in order and content, and CallTracer.traces must hold exactly the unfinished frames. The nesting scenarios are repeated with a logger that raises on its i-th call for every i, and a scenario list with self-referential / too deeply nested values (type collection fails) is run in every rotation: such a call may stay unlogged but leaves no per-call state and never a trace that omits a position. Also: decorators that keep __wrapped__ in a slot, one container object handed to call after call, and five monkeytype.trace(config) sessions through the configuration's own logger.",
        note="Trusts CPython 3.12's sys.monitoring events as ground truth; nested functions/closures/lambdas are MAY-log; named parameters exclude *args/**kwargs.",
        ref="DESIGN.md section 4 C02",
    ),
    "C18": dict(
        technique="stateless choice-point exploration (deviation-bounded) with the sampling RNG answered by the explorer: every answer vector for every program x rate, exact expectation instead of statistics (E2)",
        text="The `random` module seen by monkeytype.tracing is replaced by an explorer-owned seam; for seven programs x six rates every answer vector over {0,1,N-1} is executed (complete up to 6 draws, otherwise all vectors within 3 deviations of always-sample and never-sample; every r in range(N) for a one-call program). Every logged trace must describe a real completed call exactly (ground truth from sys.monitoring), skipped calls leave no residue, rate None/1 traces everything, and the exact expected traced fraction lies within 25% of 1/N. A run whose draws are not per call (more draws than frame activations) is a violation at once.",
        note="Answers 1..N-1 are treated as one class (justified by the per-answer check); seam loss is detected by calibration; a private generator constructed with an explicit seed is not a choice point (the real seeded generator is handed out, so the no-draw oracle fires); the open finding is attributed per frame (draw i = i-th frame activation).",
        ref="DESIGN.md section 4 C18",
    ),
    "C03": dict(
        technique="exhaustive differential exploration (untraced vs traced run of every tripwire x position workload) with every fault set of size <= 2 injected into the logger, both block exits and both profiler configurations (E4 + E2 fault enumeration)",
        text="For 16 tripwire kinds at 24 positions (incl. values on which type collection fails, returned / yielded / passed), every subset of at most two faults among {log#1, log#2, log#3, flush}, both exits of the traced block and with/without a pre-installed profiler, the workload is run untraced and traced; the complete observation record (journal of every user-level hook incl. finalisers, results, exceptions, stdout) must be identical, no MonkeyType exception may reach the program, the previous profiler must be back and flush must have run exactly once. In fresh interpreters `python prog.py` / `python -m prog` are compared with `monkeytype run prog.py` / `monkeytype run -m prog` (stdout, exit status; the program looks at sys.argv, __main__ and pickles its own class). The differential programs also print a digest of os.environ (own and a child's), cwd and umask. Faulted scenarios also run with warnings as errors; the code filter itself is a fault site.",
        note="Observable behaviour = hook journal + results + exceptions + stdout; fault sites are the logger's log/flush calls.",
        ref="DESIGN.md section 4 C03",
    ),
    "C14": dict(
        technique="exhaustive exploration of store histories (row permutations, duplications, batch/connection splits, runs on different days through a clock seam) and of set-iteration schedules inside stub building (choice-point seam), plus fresh interpreters with three hash seeds (E2 + E1)",
        text="For eleven trace families every permutation, duplication and batch/connection/day split of the rows is written through the real SQLiteStore and stubbed through the CLI; inside monkeytype.stubs every set's iteration order is answered by the explorer (every single-point deviation, global reverse/rotate); the same store is stubbed in fresh interpreters with three PYTHONHASHSEED values; all stubs of a family must agree per position with unions compared as sets. Plus the shipped DefaultConfig: every split into batches written alternately in-process and by another process, with `monkeytype stub` after every batch.",
        note="Per-process layout is owned through the set seam inside monkeytype.stubs only; the clock of SQLiteStore.add is owned by a seam.",
        ref="DESIGN.md section 4 C14",
    ),
    "C15": dict(
        technique="explicit enumeration of generated source modules (feature-toggle product) x stubs MonkeyType itself generates x overwrite/k/confinement flags, through apply_stub_using_libcst and the real `apply` command; AST eraser-and-diff oracle (bounded exhaustive, E1)",
        text="Sources built from the complete product of feature toggles (comments, docstring, __future__, typing import, partial annotations, decorators, nested defs, module/class level code, conditional defs, one-liners, star and positional-only parameters) are annotated with the stubs MonkeyType generates for traced subsets under every flag combination; the result must parse, equal the original once annotations / added imports / generated TypedDict classes are erased, keep every comment and existing annotation (unless overwrite), contain every stub annotation, and be a fixed point of a second application; the same through `monkeytype apply` rewriting the file, and through three successive `apply module:qualname` commands in one process, each judged against the file the previous one left. Faults include a closed standard output; sources include '/' directly followed by '*'.",
        note="libcst needs ~0.3 s per application: quick uses a 5-toggle product plus single-toggle sources, thorough an 8-toggle product and all subsets.",
        ref="DESIGN.md section 4 C15",
    ),
    "C16": dict(
        technique="explicit enumeration of import placement x import form x runtime use x stub-import kind x overwrite with confinement on; results inspected (import inventory) and EXECUTED with the workload re-run (bounded exhaustive, E1)",
        text="The complete product of eleven import placements (top, after docstring / __future__ / module code, inside a function, an `if TYPE_CHECKING:`, a try/except binding TYPE_CHECKING, module-level try / with / for blocks, a class body), six import forms, runtime use yes/no, eight kinds of imports the stub may add (new user module, typing name, already-imported name, TypedDict base of a generated class, another name of the same module, nothing new, a user module named like typing, a same-short-name class of another module) and overwrite on/off is applied with --pep_563 semantics; the __future__ import must come first, new annotation-only imports must be confined, every original import must stay in place with its alias, and the resulting module is executed and must reproduce the workload's result. Two further families: a second application that needs the import the first one confined (judged against the first result), and sources living in a package that import `from .rsub import Tri` while the stub imports `Tri` from the top-level module `rsub`. Also a differential against the unconfined application and two-module histories in a fresh process.",
        note="Trusts ast for the import inventory; the workload's observable result is the module-level RESULT value.",
        ref="DESIGN.md section 4 C16",
    ),
    "C01": dict(
        technique="explicit enumeration of call histories x function kinds x k x rewriter x CLI flag through the real trace -> SQLite -> decode -> shrink -> rewrite -> render pipeline; the stub text is evaluated with its own names and every recorded value judged by the conformance oracle (bounded exhaustive, E1+E4)",
        text="Every depth-1 grammar value and every pair of representative values is bound to its own generated function (ten kinds: function, method, classmethod, generators with and without return value, coroutine that really suspends, truthfully annotated, alternating yields/returns, one call yielding the whole history); monkeytype.trace(config) records the real run into a SQLite file and `stub` is rendered for five size limits x seven rewriters x four CLI flags; each annotation is evaluated with the names the stub provides and every value really passed, returned or yielded at that position must be a member of it. Every function is also stubbed alone, and a store with many duplicate calls is stubbed under a query limit equal to the number of distinct rows. Histories also include one container object grown between calls, a generator suspended over 1100 other calls, and run / stub / run-in-another-process / stub in one process.",
        note="Trusts member()/stubeval; generator and coroutine annotations are read at function level (yielded / returned / awaited values).",
        ref="DESIGN.md section 4 C01",
    ),
}

NOT_YET = {}


def main():
    props = [json.loads(l) for l in (V / "properties.jsonl").read_text().splitlines() if l.strip()]
    checks = []
    na = []
    for p in props:
        pid = p["id"]
        if pid in CHECKS:
            c = CHECKS[pid]
            checks.append(
                {
                    "property_id": pid,
                    "quick_cmd": f"./run_check {pid} quick",
                    "thorough_cmd": f"./run_check {pid} thorough",
                    "evidence_file": f"/verif/evidence/{pid}.json",
                    "replay_cmd_template": "./run_check --replay {path}",
                    "engine": "mcheck",
                    "level_claimed": {"category": "model_checking", "text": c["text"], "design_ref": c["ref"]},
                    "level_note": c["note"],
                    "technique": c["technique"],
                }
            )
        else:
            na.append({"property_id": pid, "reason": NOT_YET.get(pid, "check not built yet in this revision (planned: DESIGN.md section 4); no claim is made")})
    m = {
        "version": 1,
        "setup_cmd": "true",
        "hooks": {
            "guard": "MONKEYTYPE_VERIF",
            "enable": "no source hooks: every seam is installed from the harness side (module-attribute substitution, sqlite progress handlers, sys.monitoring, fork)",
            "baseline_off_cmd": "cd /repo && /venv/bin/python -m pytest -ra -q -p no:cacheprovider --timeout=900 --continue-on-collection-errors",
            "source_commits": [],
            "add_only": True,
        },
        "engines": [
            {
                "name": "mcheck",
                "path": "/verif/mcheck",
                "serves_properties": sorted(CHECKS),
                "kind_free_text": "hand-written bounded exhaustive explorers for Python: E1 grammar enumerator, E2 choice-point (deviation-bounded) explorer, E3 explicit-state BFS over the real transition functions with replay, E4 differential runner",
            }
        ],
        "checks": checks,
        "not_applicable": na,
        "notes": "All checks run the real code of /repo's working tree (PYTHONPATH), no build step. Known genuine defects: KNOWN_FINDINGS.txt.",
    }
    (V / "MANIFEST.json").write_text(json.dumps(m, indent=1) + "\n")
    print("checks:", len(checks), "not_applicable:", len(na))


if __name__ == "__main__":
    main()
