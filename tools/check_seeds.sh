#!/bin/bash
# usage: tools/check_seeds.sh [seed-dir-names...]   (env MCHECK_REPO=<repo to patch>, default /repo)
# For every seeded mutant: apply patch.diff to the repo, run the quick checks named in meta.json caught_by, expect
# exit 1 with a VIOLATION line, undo the patch. Prints one line per seed.
R="${MCHECK_REPO:-/repo}"
V="$(cd "$(dirname "${BASH_SOURCE[0]}")/.." && pwd)"
cd "$R" || exit 9
[ -z "$(git status --porcelain --untracked-files=no)" ] || { echo "REPO DIRTY: $R"; exit 9; }
names=("$@"); [ ${#names[@]} -gt 0 ] || names=($(ls "$V/seeded"))
fail=0
for n in "${names[@]}"; do
  d="$V/seeded/$n"; [ -f "$d/patch.diff" ] || continue
  if ! git apply --check "$d/patch.diff" 2>/dev/null; then echo "$n: PATCH-DOES-NOT-APPLY"; fail=1; continue; fi
  git apply "$d/patch.diff"
  checks=$(/venv/bin/python -c "import json;print(' '.join(json.load(open('$d/meta.json'))['caught_by']))")
  res=""
  for c in $checks; do
    out=$(cd "$V" && MCHECK_REPO="$R" ./run_check "$c" quick 2>&1); rc=$?
    if [ $rc = 1 ] && echo "$out" | grep -q "^VIOLATION property=$c"; then res="$res $c:caught"; else res="$res $c:MISSED(rc=$rc)"; fail=1; fi
  done
  git checkout -q -- .
  echo "$n:$res"
done
exit $fail
