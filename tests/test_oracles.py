"""Unit tests of the reference oracles, including negative controls (an oracle that accepts everything is noticed).
Run: cd /verif && PYTHONPATH=/verif:/verif/fixtures:/repo /venv/bin/python -m pytest -q tests"""
import collections
from typing import Any, Callable, DefaultDict, Dict, Iterator, List, Optional, Set, Tuple, Type, Union

import vfx.shapes as S

from mcheck.oracles import stubeval as SE
from mcheck.oracles import types as O
from mcheck.oracles.witness import witnesses

atd = SE.mk_atd


def test_member_positive():
    assert O.member(1, int) and O.member(True, int) and O.member(None, type(None))
    assert O.member([1, "a"], List[Union[int, str]]) and O.member([], List[int]) and O.member([], List[Any])
    assert O.member({"a": 1}, atd({"a": int}, {})) and O.member({"a": 1, "b": "x"}, atd({"a": int}, {"b": str}))
    assert O.member((), Tuple[()]) and O.member((1, 2), Tuple[int, ...]) and O.member((1, "a"), Tuple[int, str])
    assert O.member(S.Derived(), S.Base) and O.member(S.Derived, Type[S.Base]) and O.member(len, Callable)
    assert O.member(collections.defaultdict(int, {"a": 1}), DefaultDict[str, int]) and O.member(S.genfunc(), Iterator[Any])
    assert O.member(S.MyList([1]), List[int])  # a list subclass is a list


def test_member_negative():
    assert not O.member("a", int) and not O.member(None, int) and not O.member(1, type(None))
    assert not O.member([1, "a"], List[int]) and not O.member({1}, List[int])
    assert not O.member({"a": 1, "c": 2}, atd({"a": int}, {"b": str}))       # undeclared key: closed reading
    assert not O.member({}, atd({"a": int}, {})) and not O.member({"a": "x"}, atd({"a": int}, {}))
    assert not O.member((1,), Tuple[()]) and not O.member((1, 2), Tuple[int]) and not O.member((1, "a"), Tuple[int, ...])
    assert not O.member(S.Base(), S.Derived) and not O.member(S.Base, Type[S.Derived]) and not O.member(3, Callable)
    assert not O.member({"a": 1}, DefaultDict[str, int]) and not O.member([1], Iterator[Any])


def test_struct():
    assert O.struct(Union[int, str]) == O.struct(Union[str, int])
    assert O.struct(List[Union[int, str]]) == O.struct(List[Union[str, int]])
    assert O.struct(atd({"a": int, "b": str}, {})) == O.struct(atd({"b": str, "a": int}, {}))
    assert O.struct(Tuple[()]) != O.struct(Tuple) and O.struct(Tuple[int]) != O.struct(Tuple[int, ...])
    assert O.struct(atd({"a": int}, {})) != O.struct(atd({}, {"a": int})) and O.struct(List[int]) != O.struct(Set[int])
    assert O.struct(S.Base) != O.struct(S.Derived) and O.struct(Optional[int]) != O.struct(int)
    assert O.ostruct(Union[int, str]) != O.ostruct(Union[str, int])


def test_tight():
    assert O.tight(Union[int, str], [1, "a"]) is None
    assert O.tight(Union[int, str], [1]) is not None                         # unwitnessed alternative
    assert O.tight(S.Base, [S.Derived()]) is not None                        # widened to a base class
    assert O.tight(List[Any], [[]]) is None and O.tight(List[Any], [[1]]) is not None
    assert O.tight(Union[List[Any], List[int]], [[], [1]]) is None
    assert O.tight(List[Union[Any, int]], [[], [1]]) is None and O.tight(List[Union[Any, int]], [[1]]) is not None
    assert O.tight(atd({"a": int}, {}), [{"a": 1}, {}]) is not None         # required although one dict lacks it
    assert O.tight(atd({}, {"a": int}), [{"a": 1}, {"a": 2}]) is not None   # optional although all have it
    assert O.tight(atd({"a": int}, {"b": str}), [{"a": 1}, {"a": 2, "b": "x"}]) is None
    assert O.tight(Tuple[int], [S.MyTuple((0,))]) is not None                # tuple type without an exact tuple


def test_witnesses_are_members():
    for T in [int, S.Base, List[int], Dict[str, S.Base], Tuple[int, str], Tuple[()], Optional[List[Any]], atd({"a": int}, {"b": str}), Type[S.Base], Union[int, List[str]]]:
        ws = witnesses(T)
        assert ws, T
        assert all(O.member(w, T) for w in ws), (T, ws)
    assert any(type(w) is S.Derived for w in witnesses(S.Base))              # proper subclasses included
    assert [] in witnesses(List[Any]) and len(witnesses(List[Any])) == 1     # C[Any] = the empty C


def test_stubeval_roundtrip_and_errors():
    text = '''from typing import List, Optional
from mypy_extensions import TypedDict


class XTypedDict__RENAME_ME__(TypedDict):
    a: int


class XTypedDict__RENAME_ME__NonTotal(XTypedDict__RENAME_ME__, total=False):
    b: Optional[str]


def f(x: 'XTypedDict__RENAME_ME__NonTotal', y: List[Missing] = ...) -> None: ...


class K:
    @classmethod
    def m(cls, z: int) -> List['XTypedDict__RENAME_ME__']: ...
'''
    info = SE.parse(text, {})
    assert info.syntax_error is None and not info.import_errors
    fi = info.funcs[((), "f")][0]
    assert O.struct(SE.normalize(fi.ann["x"], info)) == O.struct(atd({"a": int}, {"b": Optional[str]}))
    assert isinstance(SE.normalize(fi.ann["y"], info), SE.Err)               # unprovided name is an error, not a guess
    assert SE.normalize(fi.returns, info) is O.NoneType
    km = info.funcs[(("K",), "m")][0]
    assert km.decorators == ["classmethod"] and O.struct(SE.normalize(km.returns, info)) == O.struct(List[atd({"a": int}, {})])
    assert SE.parse("class A.B:\\n    pass", {}).syntax_error
