"""Top-level module with the same name as the submodule `rsub` that C16's package-relative sources import from."""


class Tri:
    def area(self):
        return 111
