class thing:
    pass
