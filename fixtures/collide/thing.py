class thing:
    class Point:
        pass
