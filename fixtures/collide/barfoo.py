class Qux:
    pass
