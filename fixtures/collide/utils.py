class A:
    pass


class B:
    pass


def uf(x6):
    return None


class UK:
    def um(self, x7):
        return None
