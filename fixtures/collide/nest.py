class Outer:
    class Inner:
        class Deep:
            pass


import typing

_T = typing.TypeVar("_T")


class Holder:
    class GBox(typing.Generic[_T]):
        """A user generic nested in a class (annotations like `Holder.GBox[int]`)."""
