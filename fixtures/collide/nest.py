class Outer:
    class Inner:
        class Deep:
            pass
