class Own:
    pass


def f(x1):
    return None


def g(x2):
    yield None


class K:
    def m(self, x3):
        return None

    @classmethod
    def cm(cls, x4):
        return None

    @staticmethod
    def sm(x5):
        return None

    @property
    def p(self):
        return None


def fd8(x8=None):
    return None


def fd9(x9=0):
    return None


def fd10(*, x10=None):
    return None


def make0():
    return Own()


def fann(opts: dict, flag=None):
    return None


import nest  # noqa: E402


def fgen(b: nest.Holder.GBox[int], x=None):
    return None
