class X:
    pass
