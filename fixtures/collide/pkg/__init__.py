class P:
    pass
