class C:
    pass


class D:
    pass
