"""A user module whose name starts with an underscore (like _io, but not _io)."""


class PV:
    pass
