class Baz:
    pass
