class MyNoneType:
    pass


class NoneTypeX:
    pass
