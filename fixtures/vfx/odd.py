"""Importable classes with unusual but legitimate metaclass behaviour (used as values, class objects and trace slot types)."""
import typing


class _EmptyRegistryMeta(type):
    """a registry-style metaclass: len(cls) is the number of registered plugins, so an empty registry class is falsy"""

    def __len__(cls):
        return 0


class Registry(metaclass=_EmptyRegistryMeta):
    pass


class _NeverMeta(type):
    def __bool__(cls):
        return False


class Flagless(metaclass=_NeverMeta):
    pass


class Movie(typing.TypedDict):
    title: str
    year: int


class Options(typing.TypedDict, total=False):
    depth: int


class Api:
    class Payload(typing.TypedDict):
        body: "Movie"


def make_registry(x=None):
    return Registry
