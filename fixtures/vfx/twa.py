"""Twin of vfx.twb: the same text at the same lines - equal code objects - except for the defaults and annotations."""


def tw(a, b=None, *, c: int = 0):
    return a


class TwData:
    def __init__(self, count=None, label="x"):
        self.count = count
        self.label = label
