"""Fixture class hierarchy and callables used as grammar atoms (importable by module + qualname)."""
import functools


class Base:
    def meth(self, x=None):
        return x

    @classmethod
    def cmeth(cls, x=None):
        return x

    @staticmethod
    def smeth(x=None):
        return x

    @property
    def prop(self):
        return 1


class Derived(Base):
    pass


class Derived2(Base):
    pass


class Other:
    pass


class Mixin:
    pass


class Multi(Derived, Mixin):
    pass


class Outer:
    class Inner:
        class Deep:
            def dmeth(self, x=None):
                return x

        def imeth(self, x=None):
            return x

        @staticmethod
        def ismeth(x=None):
            return x

    def ometh(self, x=None):
        return x


class MyList(list):
    pass


class MyDict(dict):
    pass


class MyTuple(tuple):
    pass


class MySet(set):
    pass


class MyStr(str):
    pass


def mfunc(x=None):
    return x


def _deco(f):
    @functools.wraps(f)
    def wrapper(*a, **kw):
        return f(*a, **kw)

    return wrapper


@_deco
def wrapped(x=None):
    return x


def genfunc(n=2):
    for i in range(n):
        yield i


lam = lambda x=None: x  # noqa: E731


@_deco
@_deco
def wrapped2(x=None):
    return x


class Deco:
    @_deco
    def dmeth(self, x=None):
        return x

    @classmethod
    @_deco
    def dcmeth(cls, x=None):
        return x


def yield_all(xs):
    for x in xs:
        yield x


import abc  # noqa: E402
import enum  # noqa: E402


class Color(enum.Enum):
    RED = 1
    BLUE = 2


class AbcBase(abc.ABC):
    pass


class AbcImpl(AbcBase):
    pass


class _Meta(type):
    pass


class WithMeta(metaclass=_Meta):
    pass


@functools.lru_cache(maxsize=None)
def cached_func(x=None):
    return x


class _ClassDeco:
    """A class-based decorator that uses functools.update_wrapper (the module attribute is an instance, not a function)."""

    def __init__(self, f):
        functools.update_wrapper(self, f)
        self.f = f

    def __call__(self, *a, **kw):
        return self.f(*a, **kw)


@_ClassDeco
def class_decorated(x=None):
    return x


# two unrelated bases inherited in both orders (linearisations disagree on which comes first)
class DX:
    pass


class DY:
    pass


class DA(DX, DY):
    pass


class DB(DY, DX):
    pass


class DC(DX, DY):
    pass


class DD(DY, DX):
    pass


class DE(DX, DY):
    pass


class DF(DY, DX):
    pass


class LoudStr(str):
    """a str subclass whose str() is not the key itself"""

    def __str__(self):
        return "<" + str.__str__(self).upper() + ">"


class SColor(str, enum.Enum):
    RED = "red"
    BLUE = "blue"
