"""User classes whose names collide with the hidden-builtin table of the decoder."""


class NoneType:
    pass


class mappingproxy:
    pass


class NotImplementedType:
    pass


class Any:
    pass


class Union:
    pass


class List:
    pass


# user classes that merely share their name with a typing construct the rewriters dispatch on
class Dict:
    pass


class Set:
    pass


class Tuple:
    pass


class Generator:
    pass


class Iterator:
    pass


class DefaultDict:
    pass


class TypedDict:
    pass


TYPING_NAMED = [Union, List, Dict, Set, Tuple, Generator, Iterator, DefaultDict, TypedDict]
