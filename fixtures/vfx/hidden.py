"""User classes whose names collide with the hidden-builtin table of the decoder."""


class NoneType:
    pass


class mappingproxy:
    pass


class NotImplementedType:
    pass


class Any:
    pass


class Union:
    pass


class List:
    pass
