"""Tripwire objects: every user-level hook journals its invocation. A tracer that never executes user code on the
program's objects leaves the journal of a traced run identical to that of an untraced run."""
JOURNAL = []


def j(kind, what):
    JOURNAL.append(f"{kind}.{what}")


class GA:
    """overrides __getattribute__"""

    def __init__(self):
        object.__setattr__(self, "v", 1)

    def __getattribute__(self, name):
        j("GA", f"__getattribute__({name})")
        return object.__getattribute__(self, name)


class GT:
    """defines __getattr__ (missing attributes)"""

    def __getattr__(self, name):
        j("GT", f"__getattr__({name})")
        raise AttributeError(name)


class CL:
    """overrides __class__ (lazy proxy style)"""

    @property
    def __class__(self):
        j("CL", "__class__")
        return int


class DESC:
    """has a side-effecting lazy property and a data descriptor"""

    @property
    def lazy(self):
        j("DESC", "lazy")
        return 1


class LST(list):
    def __iter__(self):
        j("LST", "__iter__")
        return list.__iter__(self)

    def __len__(self):
        j("LST", "__len__")
        return list.__len__(self)

    def __getitem__(self, i):
        j("LST", "__getitem__")
        return list.__getitem__(self, i)

    def __contains__(self, x):
        j("LST", "__contains__")
        return list.__contains__(self, x)


class DCT(dict):
    def __iter__(self):
        j("DCT", "__iter__")
        return dict.__iter__(self)

    def __len__(self):
        j("DCT", "__len__")
        return dict.__len__(self)

    def keys(self):
        j("DCT", "keys")
        return dict.keys(self)

    def values(self):
        j("DCT", "values")
        return dict.values(self)

    def items(self):
        j("DCT", "items")
        return dict.items(self)

    def __getitem__(self, k):
        j("DCT", "__getitem__")
        return dict.__getitem__(self, k)

    def __contains__(self, k):
        j("DCT", "__contains__")
        return dict.__contains__(self, k)


class SET(set):
    def __iter__(self):
        j("SET", "__iter__")
        return set.__iter__(self)

    def __len__(self):
        j("SET", "__len__")
        return set.__len__(self)

    def __contains__(self, k):
        j("SET", "__contains__")
        return set.__contains__(self, k)


class TUP(tuple):
    def __iter__(self):
        j("TUP", "__iter__")
        return tuple.__iter__(self)

    def __len__(self):
        j("TUP", "__len__")
        return tuple.__len__(self)

    def __getitem__(self, i):
        j("TUP", "__getitem__")
        return tuple.__getitem__(self, i)


class HEB:
    """journaling __hash__/__eq__/__bool__/__repr__/__str__/__len__"""

    def __hash__(self):
        j("HEB", "__hash__")
        return 7

    def __eq__(self, other):
        j("HEB", "__eq__")
        return self is other

    def __bool__(self):
        j("HEB", "__bool__")
        return True

    def __repr__(self):
        j("HEB", "__repr__")
        return "HEB()"

    def __str__(self):
        j("HEB", "__str__")
        return "HEB"


class Meta(type):
    def __instancecheck__(cls, inst):
        j("META", "__instancecheck__")
        return type.__instancecheck__(cls, inst)

    def __subclasscheck__(cls, sub):
        j("META", "__subclasscheck__")
        return type.__subclasscheck__(cls, sub)


class METAI(metaclass=Meta):
    pass


class CALL:
    """a callable object with attribute hooks (decorator-like object found in globals / callers' locals)"""

    def __call__(self, *a):
        return None

    def __getattr__(self, name):
        j("CALL", f"__getattr__({name})")
        raise AttributeError(name)


class CLR:
    """__class__ raises"""

    @property
    def __class__(self):
        j("CLR", "__class__")
        raise RuntimeError("poisoned __class__")


class GAR:
    """__getattribute__ raises for everything"""

    def __getattribute__(self, name):
        j("GAR", f"__getattribute__({name})")
        raise RuntimeError("poisoned attribute")


class HR:
    """__hash__/__eq__/__repr__ raise"""

    def __hash__(self):
        j("HR", "__hash__")
        raise RuntimeError("poisoned hash")

    def __eq__(self, other):
        j("HR", "__eq__")
        raise RuntimeError("poisoned eq")

    def __repr__(self):
        j("HR", "__repr__")
        raise RuntimeError("poisoned repr")


class DEL:
    """journals its own finalisation: an object the program dropped must die at the same point with and without tracing"""

    def __del__(self):
        j("DEL", "__del__")


KINDS = {
    "DEL": DEL,
    "GA": GA, "GT": GT, "CL": CL, "DESC": DESC, "LST": lambda: LST([1, 2]), "DCT": lambda: DCT(a=1), "SET": lambda: SET({1}),
    "TUP": lambda: TUP((1, 2)), "HEB": HEB, "METAI": METAI, "METAC": lambda: METAI, "CALL": CALL, "CLR": CLR, "GAR": GAR, "HR": HR,
}
HASHABLE = {"DEL", "GA", "GT", "DESC", "TUP", "HEB", "METAI", "METAC", "CALL", "CL"}
