"""A tiny module that C08 reloads between two decodes of the same stored trace."""


def f(x=None):
    return x


class C:
    def m(self, x=None):
        return x
