"""Twin of vfx.twa: the same text at the same lines - equal code objects - except for the defaults and annotations."""


def tw(a, b=0, *, c: str = ""):
    return a


class TwData:
    def __init__(self, count=0, label=None):
        self.count = count
        self.label = label
