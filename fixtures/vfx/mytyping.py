"""A user module whose name merely contains 'typing'."""


class TT:
    pass
