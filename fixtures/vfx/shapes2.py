"""A second module defining functions with the same qualified names as vfx.shapes."""


def mfunc(x=None):
    return x


class Base:
    def meth(self, x=None):
        return x


def req(p):
    return p


def deflt(q=0):
    return q
