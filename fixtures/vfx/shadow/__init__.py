"""A package whose __init__ re-exports a function under the name of the submodule that defines it:
after import, the attribute `vfx.shadow.render` is the FUNCTION, the submodule is only in sys.modules."""
from .render import render  # noqa: F401
