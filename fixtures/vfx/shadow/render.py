class Canvas:
    class Cell:
        pass

    @classmethod
    def blank(cls, n):
        return cls()


def render(canvas):
    return canvas


def gen_cells(n):
    yield Canvas.Cell()
