"""Target module for C10: some names are valid trace targets, others make stored rows stale."""


class Arg:
    pass


class Ret:
    pass


def good1(a):
    return a


def good2(a, b=None):
    return b


def gen1(a):
    yield a


class Cls:
    def meth(self, x):
        return x

    @property
    def ro(self):
        return 1

    def _get(self):
        return 1

    def _set(self, v):
        pass

    def _del(self):
        pass

    settable = property(_get, _set)
    nogetter = property(None, _set)
    deletable = property(_get, None, _del)


now_int = 3
not_a_type = {"a": 1}
none_val = None
an_instance = Arg()


class NowClass:
    def __init__(self, a=None):
        pass


def outer():
    def inner(a):
        return a

    return inner


import functools

# names that used to be plain functions and are by now wrappers around a function defined in a local scope
now_cached_local = functools.lru_cache(maxsize=None)(outer())


def _keep(f):
    @functools.wraps(f)
    def wrapper(*a, **kw):
        return f(*a, **kw)

    return wrapper


now_wrapped_local = _keep(outer())
