"""Configurable Config used to drive the real CLI in-process: `-c mcfg:CONFIG` (state set by the harness)."""
from monkeytype.config import DefaultConfig
from monkeytype.db.sqlite import SQLiteStore

STATE = {"k": None, "db": None, "rewriter": "default", "filter": None, "sample_rate": None, "limit": None}


class Cfg(DefaultConfig):
    def trace_store(self):
        return SQLiteStore.make_store(STATE["db"])

    def max_typed_dict_size(self):
        if STATE["k"] is None:
            return super().max_typed_dict_size()
        return STATE["k"]

    def type_rewriter(self):
        if STATE["rewriter"] == "default":
            return super().type_rewriter()
        return STATE["rewriter"]

    def code_filter(self):
        if STATE["filter"] is None:
            return super().code_filter()
        return STATE["filter"]

    def sample_rate(self):
        return STATE["sample_rate"]

    def query_limit(self):
        if STATE["limit"] is None:
            return super().query_limit()
        return STATE["limit"]


CONFIG = Cfg()


def reset(**kw):
    STATE.update({"k": None, "db": None, "rewriter": "default", "filter": None, "sample_rate": None, "limit": None})
    STATE.update(kw)
