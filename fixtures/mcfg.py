"""Configurable Config used to drive the real CLI in-process: `-c mcfg:CONFIG` (state set by the harness)."""
from monkeytype.config import DefaultConfig
from monkeytype.db.sqlite import SQLiteStore

STATE = {"k": None, "db": None, "rewriter": "default", "filter": None, "sample_rate": None, "limit": None, "bare_thunks": False}


class _BareThunk:
    """A thunk with nothing but the documented interface (CallTraceThunk promises to_trace() only)."""

    __slots__ = ("_t",)

    def __init__(self, t):
        self._t = t

    def to_trace(self):
        return self._t.to_trace()


class _BareStore:
    """The configured SQLite store behind a store of the project's own whose filter() hands out bare thunks."""

    def __init__(self, inner):
        self.inner = inner

    def add(self, traces):
        return self.inner.add(traces)

    def filter(self, module, qualname_prefix=None, limit=2000):
        return [_BareThunk(t) for t in self.inner.filter(module, qualname_prefix, limit)]

    def list_modules(self):
        return self.inner.list_modules()


class Cfg(DefaultConfig):
    def trace_store(self):
        st = SQLiteStore.make_store(STATE["db"])
        return _BareStore(st) if STATE.get("bare_thunks") else st

    def max_typed_dict_size(self):
        if STATE["k"] is None:
            return super().max_typed_dict_size()
        return STATE["k"]

    def type_rewriter(self):
        if STATE["rewriter"] == "default":
            return super().type_rewriter()
        return STATE["rewriter"]

    def code_filter(self):
        if STATE["filter"] is None:
            return super().code_filter()
        return STATE["filter"]

    def sample_rate(self):
        return STATE["sample_rate"]

    def query_limit(self):
        if STATE["limit"] is None:
            return super().query_limit()
        return STATE["limit"]


CONFIG = Cfg()


def reset(**kw):
    STATE.update({"k": None, "db": None, "rewriter": "default", "filter": None, "sample_rate": None, "limit": None, "bare_thunks": False})
    STATE.update(kw)


class Frozen(Cfg):
    """A Config that fixes its settings when it is constructed (`-c mcfg:fresh()`): every CLI invocation builds its own, so
    a CLI that carried a resolved config over from an earlier invocation in the same process would use stale settings."""

    def __init__(self):
        self._st = dict(STATE)
        self._in_cli_context = 0

    def cli_context(self, command):
        """Settings of this config are only final inside the CLI's lifecycle hook (as for a config that loads its project
        settings there): outside it the TypedDict limit reads as a larger fallback."""
        import contextlib

        @contextlib.contextmanager
        def ctx():
            self._in_cli_context += 1
            try:
                yield
            finally:
                self._in_cli_context -= 1

        return ctx()

    def trace_store(self):
        st = SQLiteStore.make_store(self._st["db"])
        return _BareStore(st) if self._st.get("bare_thunks") else st

    def max_typed_dict_size(self):
        k = DefaultConfig.max_typed_dict_size(self) if self._st["k"] is None else self._st["k"]
        return k if self._in_cli_context else k + 7

    def type_rewriter(self):
        return DefaultConfig.type_rewriter(self) if self._st["rewriter"] == "default" else self._st["rewriter"]

    def code_filter(self):
        return DefaultConfig.code_filter(self) if self._st["filter"] is None else self._st["filter"]

    def sample_rate(self):
        return self._st["sample_rate"]

    def query_limit(self):
        return DefaultConfig.query_limit(self) if self._st["limit"] is None else self._st["limit"]


def fresh():
    return Frozen()
