class Tri:
    def area(self):
        return 1


class Circle:
    """A different class with the short name of shp.Circle."""

    def area(self):
        return 2
