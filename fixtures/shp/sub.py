class Tri:
    def area(self):
        return 1
