"""Fixture package whose names are imported by generated sources in every form (C16)."""


class Circle:
    def area(self):
        return 3


class Square:
    def area(self):
        return 4


def helper():
    return "helper"
