"""Another module defining a class with the same short name as shp.Circle."""


class Circle:
    def area(self):
        return 33
