"""Value grammar V(depth, width) (DESIGN section 3). Values are *expressions* (strings) evaluated in NS, so
every case is replayable and printable. Enumeration is deterministic and complete for the stated shapes."""
from __future__ import annotations

import itertools
from collections import defaultdict
from typing import Any, Dict, List, Sequence

import vfx.shapes as S

NS: Dict[str, Any] = {k: getattr(S, k) for k in dir(S) if not k.startswith("__")}
NS["defaultdict"] = defaultdict


def ev(expr: str) -> Any:
    return eval(expr, dict(NS))


# one atom per get_type dispatch arm and per fixture class
ATOMS: List[str] = [
    "0", "'a'", "True", "None", "1.5", "b'x'",
    "Base()", "Derived()", "Derived2()", "Other()", "Multi()", "Outer.Inner()",
    "int", "Base", "Derived", "Outer.Inner",
    "len", "mfunc", "lam", "Base().meth", "[].append",
    "genfunc()",
    "MyList([0])", "MyDict(a=0)", "MyStr('s')", "MyTuple((0,))", "MySet()",
]
UNHASHABLE = {"MyList([0])", "MyDict(a=0)", "MySet()"}
# representatives: one per inference arm (int-like atom, str atom, None, user instance, class object, callable, generator)
REPS: List[str] = ["0", "'a'", "None", "Derived()", "int", "Base", "len", "genfunc()"]
REPS3: List[str] = ["0", "'a'", "None"]


def _lst(xs: Sequence[str]) -> str:
    return "[" + ", ".join(xs) + "]"


def _set(xs: Sequence[str]) -> str:
    return "{" + ", ".join(xs) + "}" if xs else "set()"


def _tup(xs: Sequence[str]) -> str:
    return "(" + ", ".join(xs) + ("," if len(xs) == 1 else "") + ")"


def _dct(items: Sequence[tuple]) -> str:
    return "{" + ", ".join(f"{k}: {v}" for k, v in items) + "}"


def _dd(items: Sequence[tuple]) -> str:
    return "defaultdict(int, " + _dct(items) + ")"


def hashable(x: str) -> bool:
    return not (x in UNHASHABLE or x.startswith(("[", "{", "defaultdict", "set(")) or ("[" in x and x.startswith("(")) or ("{" in x and x.startswith("(")))


def containers(full: Sequence[str], reps: Sequence[str], reps3: Sequence[str]) -> List[str]:
    """All one-level containers over the given element alphabets:
    singles over `full`, unordered pairs (list/set) and ordered pairs (tuple, dict values) over `reps`."""
    out: List[str] = []
    # list
    out.append("[]")
    out += [_lst([a]) for a in full]
    out += [_lst([a, b]) for a, b in itertools.combinations(reps, 2)]
    # set
    out.append("set()")
    out += [_set([a]) for a in full if hashable(a)]
    out += [_set([a, b]) for a, b in itertools.combinations([r for r in reps if hashable(r)], 2)]
    # tuple
    out.append("()")
    out += [_tup([a]) for a in full]
    out += [_tup([a, b]) for a in reps for b in reps]
    # dict: str keys, non-str keys, mixed keys
    out.append("{}")
    out += [_dct([("'a'", a)]) for a in full]
    out += [_dct([("'a'", a), ("'b'", b)]) for a in reps for b in reps]
    out += [_dct([("'b'", a)]) for a in reps3]
    out += [_dct([("1", a)]) for a in reps] + [_dct([("(0,)", a)]) for a in reps3]
    out += [_dct([("'a'", a), ("1", b)]) for a in reps3 for b in reps3]
    out += [_dct([("'a'", a), ("'b'", b), ("'c'", c)]) for a in reps3 for b in reps3[:2] for c in reps3[:1]]
    # defaultdict
    out.append("defaultdict(int)")
    out += [_dd([("'a'", a)]) for a in reps] + [_dd([("1", a)]) for a in reps3]
    out += [_dd([("'a'", a), ("1", b)]) for a in reps3 for b in reps3]
    out += [_dd([("'a'", a), ("'b'", b)]) for a in reps3 for b in reps3]
    return out


# dicts keyed by instances of str subclasses (their str() differs from the key), alone and next to plain keys
STR_SUBCLASS_KEYED: List[str] = [
    "{LoudStr('a'): 0}", "{SColor.RED: 0}", "{LoudStr('a'): 0, 'b': 'a'}", "{SColor.RED: 0, SColor.BLUE: 'a'}", "[{SColor.RED: 0}]", "{'a': {LoudStr('b'): 0}}",
    "LoudStr('a')", "SColor.RED", "defaultdict(int, {LoudStr('a'): 0})",
]


# string keys that cannot be written as field names of a class (not identifiers, keywords, empty)
NON_IDENTIFIER_KEYED: List[str] = [
    "{'content-type': 0}", "{'from': 0, 'a': 'a'}", "{'': 0}", "[{'1x': 0}]", "{'a': {'not-ok': 0}}", "{'a b': 0, 'class': None}", "defaultdict(int, {'x-y': 0})",
]


# long containers whose differently typed elements come late
LONG_CONTAINERS: List[str] = ["[0] * 1200 + ['a']", "[0] * 1200 + [None, 'a']", "set(range(1500)) | {'a', None}", "[[0]] * 1100 + [['a']]"]


# values of classes that look like something else: a frozenset is no `set`
LOOKALIKES: List[str] = ["frozenset()", "frozenset({0})", "frozenset({0, 'a'})", "[frozenset({0})]", "{'a': frozenset({0})}"]


def depth1() -> List[str]:
    return list(ATOMS) + containers(ATOMS, REPS, REPS3) + STR_SUBCLASS_KEYED + NON_IDENTIFIER_KEYED + LOOKALIKES


# representatives of depth-1 shapes (one per shrink/get_type arm seam) used as elements at depth 2
D1_REPS: List[str] = [
    "[]", "[0]", "['a']", "[0, 'a']", "[None]", "[Derived()]",
    "set()", "{0}", "()", "(0,)", "(0, 'a')", "('a',)",
    "{}", "{'a': 0}", "{'a': 'a'}", "{'b': 0}", "{'a': 0, 'b': 'a'}", "{'a': None}", "{1: 0}", "{'a': 0, 1: 0}",
    "defaultdict(int)", "defaultdict(int, {'a': 0})",
    "[{'a': 0}]", "[{'b': 'a'}]", "[{'c': 0}]", "[{'a': 0}, {'b': 'a'}]", "[{'a': 0}, {'a': 0, 'b': 'a'}]", "[{'a': 0, 'b': 'a'}]",
    "({'a': 0},)", "{'a': {'a': 0}}", "{'a': {'b': 0}}", "{'a': [0]}", "{'a': []}",
]


def depth2(quick: bool = True) -> List[str]:
    elems = REPS + D1_REPS
    reps = REPS3 + ["Derived()"] + D1_REPS
    r3 = ["0", "{'a': 0}", "[]"]
    return containers(elems, reps if not quick else REPS3 + D1_REPS[:20], r3)


def depth3() -> List[str]:
    d2r = [
        "[[0]]", "[[]]", "[{'a': [0]}]", "{'a': {'a': {'a': 0}}}", "{'a': [{'a': 0}]}", "([{'a': 0}],)", "[({'a': 0},)]",
        "{'a': {'a': 0, 'b': 'a'}}", "[[{'a': 0}], [{'b': 0}]]", "{1: {'a': 0}}", "defaultdict(int, {'a': {'a': 0}})",
        "[{'a': 0}, {'a': 'a'}]", "[{'a': 0}, {'b': 0}]", "{'a': [0, 'a']}", "[(0, 'a'), ('a', 0)]", "{(0,): [0]}",
    ]
    return containers(d2r + D1_REPS[:12], d2r[:8] + REPS3, ["0", "[[0]]", "{'a': {'a': 0}}"])


def triple_reps() -> List[str]:
    """Representative values for exhaustive triples (one per merge-arm seam)."""
    return REPS + D1_REPS + ["[{'c': 0, 'd': 0}]", "[{'e': 0}]", "[{'c': 0}, {'d': None}]", "Base()", "Derived2()", "True", "[{'a': 0}, {'b': 0}]", "{'a': 0, 'b': 0, 'c': 0}", "MyDict(a=0)", "Base"]


def string_key_dict(n: int, val: str = "0", start: int = 0) -> str:
    """dict with n string keys k<start>..k<start+n-1>."""
    return _dct([(repr(f"k{i}"), val) for i in range(start, start + n)])


KS = [0, 1, 2, 3, 10, 200]
