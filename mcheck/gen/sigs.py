"""Every valid Python parameter list of 0..n parameters over the six kinds (positional-only, positional-or-keyword,
keyword-only, each with/without default incl. None, *args, **kwargs), plus long-name lists that force wrapping."""
from __future__ import annotations

import itertools
from typing import List, Tuple

# a parameter: (kind, default) with kind in P K A O W; default in None | "1" | "None"
Param = Tuple[str, object]


def param_lists(max_n: int) -> List[Tuple[Param, ...]]:
    out: List[Tuple[Param, ...]] = []
    for n in range(0, max_n + 1):
        # choose counts: p posonly, k pos-or-kw, a in {0,1}, o kwonly, w in {0,1}
        for p in range(n + 1):
            for k in range(n - p + 1):
                for a in (0, 1):
                    for w in (0, 1):
                        o = n - p - k - a - w
                        if o < 0:
                            continue
                        pos = p + k
                        # defaults for positional: a suffix of length d has defaults
                        for d in range(pos + 1):
                            pos_defaults = [None] * (pos - d) + ["D"] * d
                            # each defaulted positional: "1" or "None" — all "1" and the variant where the last is None
                            variants = [["1" if x else None for x in pos_defaults]]
                            if d:
                                v2 = list(variants[0])
                                v2[-1] = "None"
                                variants.append(v2)
                            for pv in variants:
                                for kv in itertools.product([None, "1", "None"] if o <= 2 else [None, "1"], repeat=o):
                                    params: List[Param] = []
                                    for i in range(p):
                                        params.append(("P", pv[i]))
                                    for i in range(k):
                                        params.append(("K", pv[p + i]))
                                    if a:
                                        params.append(("A", None))
                                    for i in range(o):
                                        params.append(("O", kv[i]))
                                    if w:
                                        params.append(("W", None))
                                    out.append(tuple(params))
    return out


def render_params(params: Tuple[Param, ...], names: List[str], receiver: str = "", annotations=None) -> str:
    """Source text of the parameter list. `annotations`: optional {index or 'return': text}."""
    annotations = annotations or {}
    parts: List[str] = []
    if receiver:
        parts.append(receiver)
    npos = sum(1 for k, _ in params if k == "P")
    seen_p = 0
    star_done = False
    for i, (kind, default) in enumerate(params):
        name = names[i]
        ann = annotations.get(i)
        txt = name + (f": {ann}" if ann else "")
        if default is not None:
            txt += (" = " if ann else "=") + str(default)
        if kind == "A":
            txt = "*" + txt
            star_done = True
        elif kind == "W":
            txt = "**" + txt
        elif kind == "O" and not star_done:
            parts.append("*")
            star_done = True
        parts.append(txt)
        if kind == "P":
            seen_p += 1
            if seen_p == npos:
                parts.append("/")
    # a receiver before positional-only params is itself positional-only: "(self, a, /)" is valid
    return ", ".join(parts)


SHORT = ["a", "b", "c", "d", "e", "f", "g", "h"]
LONG = [f"parameter_number_{w}_with_a_rather_long_name" for w in ("one", "two", "three", "four", "five", "six", "seven", "eight")]
