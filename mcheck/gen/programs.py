"""Program grammar P (DESIGN section 3): generated target modules + the calls that drive them.

call_shape_module(): function kinds x parameter lists x exit kinds, each function called in every applicable call
style; plus nesting / recursion / exception propagation / super() / wraps / closures / twins.
"""
from __future__ import annotations

from typing import Any, Dict, List, Tuple

from mcheck.gen import sigs as G

EXITS = ["const", "expr", "implicit", "raise"]
ARGVALS = ["1", "'a'", "[1]", "None", "(1, 'a')", "{'k': 1}", "1.5", "len"]


def body_for(exit_kind: str, names: List[str], indent: str) -> List[str]:
    first = names[0] if names else "0"
    if exit_kind == "const":
        return [f"{indent}return 42"]
    if exit_kind == "expr":
        return [f"{indent}return [{first}]"]
    if exit_kind == "implicit":
        return [f"{indent}_tmp = {first}"]
    if exit_kind == "raise":
        return [f"{indent}raise KeyError('boom')"]
    raise ValueError(exit_kind)


def call_args(pl: Tuple[G.Param, ...], names: List[str], style: str) -> str:
    """style: 'all' pass everything (positional where possible), 'defaults' omit defaulted parameters,
    'keywords' pass positional-or-keyword by keyword."""
    parts: List[str] = []
    for i, (kind, default) in enumerate(pl):
        val = ARGVALS[i % len(ARGVALS)]
        if kind in ("P", "K"):
            if style == "defaults" and default is not None:
                continue
            if kind == "K" and style == "keywords":
                parts.append(f"{names[i]}={val}")
            else:
                if any("=" in p for p in parts):
                    parts.append(f"{names[i]}={val}")
                else:
                    parts.append(val)
        elif kind == "A":
            if style != "defaults" and not any("=" in p for p in parts):
                parts += ["7", "'va'"]
        elif kind == "O":
            if style == "defaults" and default is not None:
                continue
            parts.append(f"{names[i]}={val}")
        elif kind == "W":
            if style != "defaults":
                parts.append("extra_kw=3.5")
    return ", ".join(parts)


def valid_style(pl: Tuple[G.Param, ...], style: str) -> bool:
    if style == "keywords":
        # positional-only cannot be passed by keyword; keywords after *args values are fine
        seen_kw = False
        for kind, default in pl:
            if kind == "K":
                seen_kw = True
            elif kind == "P" and seen_kw:
                return False
            elif kind == "A" and seen_kw:
                pass
        return any(k == "K" for k, _ in pl)
    if style == "defaults":
        return any(d is not None for _, d in pl) or any(k in ("A", "W") for k, _ in pl)
    return True


KINDS = ["function", "method", "classmethod", "staticmethod", "inherited", "override_super", "nested_class_method", "closure", "wrapped", "coroutine", "generator"]


def call_shape_module(modname: str, lists: List[Tuple[G.Param, ...]], kinds: List[str], base: int = 0) -> Tuple[str, List[Dict[str, Any]]]:
    """-> (source, call specs). Each call spec: {'expr': python expression evaluated in the driver namespace with the module
    bound as M, 'qual': qualname of the target, 'kind', 'exit', 'must': bool (MUST-log vs MAY-log)}."""
    L: List[str] = [
        "import functools", "", "def _deco(f):", "    @functools.wraps(f)", "    def wrapper(*a, **kw):", "        return f(*a, **kw)", "    return wrapper", "",
        "class _Susp:", "    def __await__(self):", "        r = yield 'suspended'", "        return r", "",
    ]
    cls_base: List[str] = ["class Base:", "    pass"]
    cls_child: List[str] = ["class Child(Base):", "    pass"]
    cls_outer: List[str] = ["class Outer:", "    class Inner:", "        pass"]
    calls: List[Dict[str, Any]] = []
    n = base
    for pl in lists:
        names = G.SHORT[: len(pl)]
        for kind in kinds:
            for ex in EXITS:
                n += 1
                fn = f"f{n}"
                recv = {"method": "self", "classmethod": "cls", "inherited": "self", "override_super": "self", "nested_class_method": "self"}.get(kind, "")
                params = G.render_params(pl, names, recv)
                must = True
                if kind == "function":
                    L += [f"def {fn}({params}):"] + body_for(ex, names, "    ") + [""]
                    tgt, qual = f"M.{fn}", fn
                elif kind == "wrapped":
                    L += ["@_deco", f"def {fn}({params}):"] + body_for(ex, names, "    ") + [""]
                    tgt, qual = f"M.{fn}", fn
                elif kind == "coroutine":
                    L += [f"async def {fn}({params}):", "    _r = await _Susp()"] + body_for(ex, names, "    ") + [""]
                    tgt, qual = f"M.{fn}", fn
                elif kind == "generator":
                    L += [f"def {fn}({params}):", "    yield 1", "    yield 'two'"] + body_for(ex, names, "    ") + [""]
                    tgt, qual = f"M.{fn}", fn
                elif kind == "closure":
                    # a nested function closing over an argument of its maker; called by the maker
                    L += [f"def {fn}_maker(seed):", f"    def {fn}({params}):", "        _s = seed"] + body_for(ex, names, "        ") + [f"    return {fn}", ""]
                    tgt, qual = f"M.{fn}_maker(0)", f"{fn}_maker.<locals>.{fn}"
                    must = False
                elif kind == "method":
                    cls_base += [f"    def {fn}({params}):"] + body_for(ex, names, "        ") + [""]
                    tgt, qual = f"M.Base().{fn}", f"Base.{fn}"
                elif kind == "classmethod":
                    cls_base += ["    @classmethod", f"    def {fn}({params}):"] + body_for(ex, names, "        ") + [""]
                    tgt, qual = f"M.Child.{fn}", f"Base.{fn}"
                elif kind == "staticmethod":
                    cls_base += ["    @staticmethod", f"    def {fn}({params}):"] + body_for(ex, names, "        ") + [""]
                    tgt, qual = f"M.Base.{fn}", f"Base.{fn}"
                elif kind == "inherited":
                    cls_base += [f"    def {fn}({params}):"] + body_for(ex, names, "        ") + [""]
                    tgt, qual = f"M.Child().{fn}", f"Base.{fn}"
                elif kind == "override_super":
                    cls_base += [f"    def {fn}({params}):"] + body_for(ex, names, "        ") + [""]
                    sup_args = call_args(pl, names, "all")
                    # the override forwards its own parameters by name
                    fwd = []
                    for i2, (k2, _) in enumerate(pl):
                        if k2 in ("P", "K"):
                            fwd.append(names[i2])
                        elif k2 == "A":
                            fwd.append("*" + names[i2])
                        elif k2 == "O":
                            fwd.append(f"{names[i2]}={names[i2]}")
                        elif k2 == "W":
                            fwd.append("**" + names[i2])
                    cls_child += [f"    def {fn}({params}):", f"        return super().{fn}({', '.join(fwd)})", ""]
                    tgt, qual = f"M.Child().{fn}", f"Child.{fn}"
                elif kind == "nested_class_method":
                    cls_outer += [f"        def {fn}({params}):"] + body_for(ex, names, "            ") + [""]
                    tgt, qual = f"M.Outer.Inner().{fn}", f"Outer.Inner.{fn}"
                else:
                    raise ValueError(kind)
                for style in ("all", "defaults", "keywords"):
                    if not valid_style(pl, style):
                        continue
                    calls.append({"expr": f"{tgt}({call_args(pl, names, style)})", "qual": qual, "kind": kind, "exit": ex, "must": must, "style": style, "fn": fn})
    src = "\n".join(L + cls_base + [""] + cls_child + [""] + cls_outer + [""]) + "\n"
    return src, calls


NESTING_SRC = '''
def leaf(x):
    return [x]

def leaf_raises(x):
    raise KeyError(x)

def mid_catches(x):
    try:
        return leaf_raises(x)
    except KeyError:
        return "caught"

def mid_passes(x):
    return leaf_raises(x)

def top(x):
    return (mid_catches(x), leaf(x))

def top_propagates(x):
    return mid_passes(x)

def rec(n, acc=None):
    if n == 0:
        return acc
    return rec(n - 1, [n])

def rec_raises(n):
    if n == 0:
        raise ValueError("bottom")
    return rec_raises(n - 1)

def gen_inner(n):
    for i in range(n):
        yield i
    return "inner-done"

def gen_outer(n):
    r = yield from gen_inner(n)
    yield r
    return None

def consume(n):
    return list(gen_outer(n))

class Prop:
    def __init__(self, v):
        self._v = v

    @property
    def value(self):
        return self._v

    @property
    def broken(self):
        raise AttributeError("nope")

def use_prop(v):
    p = Prop(v)
    return p.value

def lam_user(x):
    f = lambda y: (y, x)
    return f(1)

def mutate_and_return(lst):
    lst.append("added")
    return lst

def fill_dict(d):
    d["k2"] = [1]
    d.setdefault("k3", None)
    return d

def gen_mutating(acc):
    acc.append(1)
    yield acc
    acc.append("s")
    yield acc
    return acc

import abc
import enum


class AbcShape(abc.ABC):
    @staticmethod
    def make(n):
        return [n]

    def area(self, k):
        return k

    @classmethod
    def build(cls, n):
        return cls.make(n)


class AbcSquare(AbcShape):
    def area(self, k):
        return super().area(k) + 1

    @classmethod
    def build(cls, n):
        return super().build(n)


class Colour(enum.Enum):
    RED = 1

    @staticmethod
    def parse(s):
        return s

    def shade(self, k):
        return (self, k)


CALLBACKS = {"k": lambda y: [y]}   # a function nothing names (no module global, no attribute, in no caller's locals)


def call_back(v):
    return CALLBACKS["k"](v)


def gen_container_then_element(n):
    # one call yields a container first and then a value of the container's own parameter type
    yield [n]
    yield n
    yield {"k": n}
    yield "k"
    yield (n, "k")
    return n


def ret_none_expr(d):
    # an EXPRESSION that evaluates to None is returned (not the constant None)
    return d.get("missing")


def ret_none_attr(p):
    return p._v


def gen_ret_none_expr(d):
    yield 1
    return d.get("missing")


def make_fact():
    # a self-recursive closure that no caller keeps in a local: only its OWN frame's locals (the free variable `fact`) name it
    def fact(n):
        return 1 if n <= 1 else n * fact(n - 1)

    return fact


import functools


@functools.singledispatch
def show(v):
    return "obj"


@show.register(str)
def _(v):
    return v.upper()


@show.register(int)
def _(v):  # noqa: F811 - same file, same qualified name, different function (the module global `_` is this one)
    return v + 1


def _keep(f):
    @functools.wraps(f)
    def wrapper(*a, **kw):
        return f(*a, **kw)

    return wrapper


class SlotDeco:
    # a class-based decorator that keeps the decorated function in a SLOT named __wrapped__
    __slots__ = ("__wrapped__", "calls")

    def __init__(self, f):
        self.__wrapped__ = f
        self.calls = 0

    def __call__(self, *a, **kw):
        self.calls += 1
        return self.__wrapped__(*a, **kw)


@SlotDeco
def slotted(v):
    return (v,)


class Stacked:
    # functools.wraps stacked on top of @staticmethod / @classmethod: the wrapper's __wrapped__ is the staticmethod object,
    # whose own __wrapped__ is a member of the builtin type
    @_keep
    @staticmethod
    def smake(v):
        return [v]

    @SlotDeco
    def meth(v):
        return {"v": v}


def _push(acc, v):
    acc.append(v)
    return len(acc)


def _fill(d, key, v):
    d[key] = v
    return d


def push_shared(v):
    # ONE list / dict object is handed to call after call and grows in between
    acc = []
    _push(acc, 1)
    _push(acc, v)
    d = {}
    _fill(d, "a", 1)
    _fill(d, "b", v)
    _fill(d, 3, None)
    return _push(acc, None)


def make_model():
    # a class that is no module global (built in a factory): its methods are found through the receiver - the instance
    # for a method, the class itself for a classmethod
    class Model:
        def __init__(self, n):
            self.n = n

        @classmethod
        def create(cls, n):
            return cls(n)

        def grow(self, k):
            return self.n + k

    return Model
'''

MUST_LOG_NESTED = ["make_fact.<locals>.fact", "make_model.<locals>.Model.__init__", "make_model.<locals>.Model.create", "make_model.<locals>.Model.grow"]

NESTING_CALLS = [
    "M.top(1)", "M.top('a')", "M.top_propagates(1)", "M.rec(3)", "M.rec(0)", "M.rec_raises(2)", "M.consume(2)", "M.consume(0)",
    "M.use_prop(1)", "M.use_prop([1])", "M.lam_user(2)", "M.mid_catches(None)", "getattr(M.Prop(1), 'broken', None)",
    "M.mutate_and_return([1])", "M.fill_dict({'k1': 0})", "list(M.gen_mutating([]))",
    "M.AbcShape.make(1)", "M.AbcSquare().area(2)", "M.AbcSquare.build(3)", "M.Colour.parse('x')", "M.Colour.RED.shade(1)",
    "M.ret_none_expr({'k': 1})", "M.ret_none_attr(M.Prop(None))", "list(M.gen_ret_none_expr({}))", "M.call_back(1)", "M.CALLBACKS['k']('s')", "list(M.gen_container_then_element(1))", "M.make_fact()(3)", "M.show(1)", "M.show('a')", "M.show(2.5)", "M.show(2)",
    "M.make_model().create(3).grow(1)", "M.push_shared('a')", "M.push_shared([1])", "M.slotted(1)", "M.slotted('a')", "M.Stacked.smake(1)", "M.Stacked.meth(2)",
]
