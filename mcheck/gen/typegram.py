"""Type grammar T(size) (DESIGN section 3): deterministic, complete for the stated shapes; unions in every rotation
(the code reads union.__args__[0]) and every permutation for <= 3 members."""
from __future__ import annotations

import itertools
from typing import Any, Callable, DefaultDict, Dict, Generator, Iterator, List, Set, Tuple, Type, Union

import vfx.shapes as S

NoneType = type(None)


def atd(req=None, opt=None):
    from monkeytype.typing import make_typed_dict

    return make_typed_dict(required_fields=req or {}, optional_fields=opt or {})


CLASSES = [int, str, bool, NoneType, float, S.Base, S.Derived, S.Derived2, S.Other, S.Multi, S.Outer.Inner]


def level0() -> List[Any]:
    return CLASSES + [Callable, Iterator[Any], Tuple[()], Type[S.Base], Type[int], List[Any], Set[Any], Dict[Any, Any], DefaultDict[Any, Any], Any]


def level1(quick: bool) -> List[Any]:
    a0 = [int, str, NoneType, S.Base, S.Derived] if quick else CLASSES
    out: List[Any] = []
    for a in a0:
        out += [List[a], Set[a], Dict[str, a], Dict[int, a], DefaultDict[str, a], Tuple[a], Tuple[a, ...], Generator[a, None, None], Iterator[a]]
        out += [atd({"a": a}), atd({"a": int}, {"b": a}), atd(None, {"b": a})]
    for a, b in itertools.product(a0[:4], a0[:4]):
        out += [Tuple[a, b], Dict[a, b] if a is not NoneType else Dict[str, b], Generator[a, None, b]]
    out += [Type[S.Derived], Type[S.Other], Tuple[int, int, int], Tuple[int, str, int]]
    return out


def rotations(xs: Tuple[Any, ...]) -> List[Tuple[Any, ...]]:
    return [xs[i:] + xs[:i] for i in range(len(xs))]


def orders(xs: Tuple[Any, ...]) -> List[Tuple[Any, ...]]:
    if len(xs) <= 3:
        return [tuple(p) for p in itertools.permutations(xs)]
    return rotations(xs)


def union_pool() -> List[Any]:
    return [
        int, str, NoneType, S.Base, S.Derived, S.Derived2, S.Other, S.Multi,
        List[Any], List[int], List[str], Set[Any], Set[int], Dict[Any, Any], Dict[str, int], Dict[str, str], Dict[int, int],
        DefaultDict[Any, Any], DefaultDict[str, int],
        Tuple[()], Tuple[int], Tuple[int, int], Tuple[str], Iterator[Any], Type[S.Base], Callable,
    ]


def mk_union(members: Tuple[Any, ...]) -> Any:
    return Union[members]  # type: ignore[return-value]


def unions(quick: bool) -> List[Any]:
    pool = union_pool()
    out: List[Any] = []
    # every pair, every order; every triple (quick: over a sub-pool), every order
    for c in itertools.combinations(pool, 2):
        out += [mk_union(o) for o in orders(c)]
    tri_pool = pool if not quick else pool[::2] + [List[int], Dict[str, str], S.Derived]
    seen = set()
    for c in itertools.combinations(tri_pool, 3):
        if c in seen:
            continue
        seen.add(c)
        out += [mk_union(o) for o in (orders(c) if not quick else rotations(c))]
    # larger unions by family, every rotation
    cls_pool = (int, str, NoneType, float, S.Base, S.Derived, S.Derived2, S.Other, S.Multi)
    tup_pool = (Tuple[()], Tuple[int], Tuple[int, int], Tuple[int, int, int], Tuple[str], Tuple[int, str], Tuple[S.Base], Tuple[S.Derived])
    dict_pool = (Dict[str, int], Dict[str, str], Dict[str, NoneType], Dict[str, S.Base], Dict[str, List[int]], Dict[int, int], Dict[Any, Any], Dict[str, float])
    sub_pool = (S.Base, S.Derived, S.Derived2, S.Multi, bool, int, S.Other, S.Outer.Inner)
    for famname, fam in (("cls", cls_pool), ("tup", tup_pool), ("dict", dict_pool), ("sub", sub_pool)):
        for n in (4, 5, 6, 7, 8):
            combos = list(itertools.combinations(fam, n))
            if quick:
                combos = combos[:: max(1, len(combos) // 12)]
            for c in combos:
                out += [mk_union(o) for o in rotations(c)]
    # mixed large unions: five/six fixed classes plus one member of every other kind, every rotation
    others = [List[Any], List[int], Tuple[()], Tuple[int], Dict[str, int], Set[int], Type[S.Base], Callable, Iterator[Any], atd({"a": int}), DefaultDict[str, int]]
    for o in others:
        for base in ((int, str, NoneType, S.Base, S.Other), (int, str, float, S.Base, S.Other, S.Derived)):
            out += [mk_union(r) for r in rotations(base + (o,))]
    # two-member unions of subclasses related by inheritance
    for a, b in itertools.permutations([S.Base, S.Derived, S.Derived2, S.Multi, S.Other, S.Mixin, int, bool], 2):
        out.append(mk_union((a, b)))
    return out


def level2(quick: bool, us: List[Any]) -> List[Any]:
    """Containers of unions and unions of containers of unions."""
    out: List[Any] = []
    step = 7 if quick else 1
    for u in us[::step]:
        out += [List[u], Dict[str, u], Tuple[u, int], atd({"a": u}), atd({"a": int}, {"b": u}), Set[u] if True else None, DefaultDict[str, u]]
        out += [mk_union((List[u], int)), mk_union((NoneType, Dict[str, u])), Generator[u, None, None], Tuple[u, ...]]
    return out


def typing_named() -> List[Any]:
    """Plain user classes called Union / List / Generator / ... (vfx.hidden), alone and below containers whose own name differs."""
    import vfx.hidden as H

    out: List[Any] = []
    for c in H.TYPING_NAMED:
        out += [c, Union[c, None], Union[c, int], Union[int, c], Tuple[c, int], Type[c], atd({"a": c})]
        if c.__name__ != "List":
            out.append(List[c])
        if c.__name__ != "Dict":
            out.append(Dict[str, c])
        out.append(Union[int, str, float, bool, NoneType, c])
    return out


def all_types(quick: bool) -> List[Any]:
    us = unions(quick)
    return level0() + level1(quick) + us + level2(quick, us)
