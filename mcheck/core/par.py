"""Sharded execution over forked workers. Work items are (index, item); results are merged Result objects."""
from __future__ import annotations

import multiprocessing as mp
import os
import traceback
from typing import Any, Callable, Iterable, List, Sequence

from mcheck.core.runner import Ctx, HarnessError, Result

_FN = None
_CTX = None


def _init(fn, ctx):
    global _FN, _CTX
    _FN, _CTX = fn, ctx


def _call(arg):
    try:
        return _FN(_CTX, arg)
    except BaseException:  # noqa: BLE001 - a SystemExit/KeyboardInterrupt in a worker must not hang the pool
        return ("ERR", traceback.format_exc())


def run_shards(ctx: Ctx, fn: Callable[[Ctx, Any], Result], shard_args: Sequence[Any]) -> Result:
    """Run fn(ctx, arg) for every arg (each returns a Result) on forked workers; merge in shard order."""
    shard_args = list(shard_args)
    # VERIF_SEED rotates the order shards are handed out (never the explored set)
    if shard_args:
        r = ctx.seed % len(shard_args)
        order = list(range(len(shard_args)))
        order = order[r:] + order[:r]
    else:
        order = []
    total = Result()
    if ctx.workers <= 1 or len(shard_args) <= 1:
        outs = {}
        for i in order:
            outs[i] = fn(ctx, shard_args[i])
    else:
        mpc = mp.get_context("fork")
        with mpc.Pool(min(ctx.workers, len(shard_args)), initializer=_init, initargs=(fn, ctx)) as pool:
            res = pool.map(_call, [shard_args[i] for i in order], chunksize=1)
        outs = dict(zip(order, res))
    for i in range(len(shard_args)):
        o = outs[i]
        if isinstance(o, tuple) and o and o[0] == "ERR":
            raise HarnessError("worker crashed:\n" + o[1])
        total.merge(o)
    return total


def stripes(n_items: int, n_shards: int) -> List[range]:
    """Index stripes i, i+n, i+2n ... (balanced when cost grows with index)."""
    n_shards = max(1, min(n_shards, n_items or 1))
    return [range(i, n_items, n_shards) for i in range(n_shards)]
