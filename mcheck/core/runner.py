"""Entry point of every check: run_check <ID> <quick|thorough>  |  run_check --replay <file>.

Contract (DESIGN 2.7): exit 0 = property held on everything explored (open known findings are printed as
KNOWN-FINDING lines); exit 1 + `VIOLATION property=<id> replay=<path>` = unlisted violation; exit 2 = harness
error (vacuous exploration, lost seam, violation that does not reproduce).
"""
from __future__ import annotations

import importlib
import json
import os
import shutil
import subprocess
import sys
import tempfile
import time
import traceback
from pathlib import Path
from typing import Any, Dict, List, Optional

VERIF = Path(__file__).resolve().parents[2]
REPO = Path(os.environ.get("MCHECK_REPO", "/repo")).resolve()


class Violation:
    """One failing case. `sig` is the failure signature (input/history class), `kind` the clause violated."""

    __slots__ = ("prop", "kind", "sig", "case", "msg")

    def __init__(self, prop: str, kind: str, sig: str, case: Any, msg: str) -> None:
        self.prop, self.kind, self.sig, self.case, self.msg = prop, kind, sig, case, msg

    def to_json(self) -> Dict[str, Any]:
        return {"property": self.prop, "kind": self.kind, "sig": self.sig, "case": self.case, "msg": self.msg}

    def __repr__(self) -> str:
        return f"Violation({self.prop} {self.kind} {self.sig}: {self.msg[:200]})"


class Result:
    """Mergeable statistics of one (shard of an) exploration."""

    def __init__(self) -> None:
        self.evaluations = 0          # executions of real code whose outcome was judged by the oracle
        self.states = 0               # distinct states / cases (canonical keys)
        self.transitions = 0          # transitions executed / oracle steps
        self.validated = 0            # executions run against the real implementation
        self.outcomes: set = set()    # distinct observed outcomes (hashable keys, kept small)
        self.nontrivial: set = set()  # distinct cases that reached a non-default arm
        self.nontrivial_n = 0         # used when keeping the set would be too large
        self.samples: List[Any] = []
        self.violations: List[Violation] = []
        self.obligations: Dict[str, bool] = {}
        self.bounds: Dict[str, Any] = {}
        self.caps: List[str] = []
        self.extra: Dict[str, Any] = {}
        self.counters: Dict[str, int] = {}

    def count(self, key: str, n: int = 1) -> None:
        self.counters[key] = self.counters.get(key, 0) + n

    def oblige(self, name: str, ok: bool) -> None:
        """Obligations are OR-merged across shards: met if any shard met it."""
        self.obligations[name] = self.obligations.get(name, False) or bool(ok)

    def sample(self, s: Any, limit: int = 6) -> None:
        if len(self.samples) < limit:
            self.samples.append(s)

    def violate(self, v: Violation, per_sig_limit: int = 3) -> None:
        n = sum(1 for x in self.violations if (x.kind, x.sig) == (v.kind, v.sig))
        self.count(f"violations[{v.kind}/{v.sig}]")
        if n < per_sig_limit:
            self.violations.append(v)

    def merge(self, o: "Result") -> "Result":
        self.evaluations += o.evaluations
        self.states += o.states
        self.transitions += o.transitions
        self.validated += o.validated
        if len(self.outcomes) < 200000:
            self.outcomes |= o.outcomes
        self.nontrivial |= o.nontrivial
        self.nontrivial_n += o.nontrivial_n
        for s in o.samples:
            self.sample(s)
        for v in o.violations:
            n = sum(1 for x in self.violations if (x.kind, x.sig) == (v.kind, v.sig))
            if n < 3:
                self.violations.append(v)
        for k, ok in o.obligations.items():
            self.oblige(k, ok)
        self.bounds.update(o.bounds)
        for c in o.caps:
            if c not in self.caps:
                self.caps.append(c)
        for k, n in o.counters.items():
            self.counters[k] = self.counters.get(k, 0) + n
        for k, val in o.extra.items():
            if isinstance(val, dict) and isinstance(self.extra.get(k), dict):
                for k2, v2 in val.items():
                    self.extra[k].setdefault(k2, v2)
            else:
                self.extra.setdefault(k, val)
        return self


class Ctx:
    def __init__(self, prop: str, tier: str, seed: int, tmp: Path, workers: int) -> None:
        self.prop, self.tier, self.seed, self.tmp, self.workers = prop, tier, seed, tmp, workers

    @property
    def quick(self) -> bool:
        return self.tier == "quick"


def assert_repo_under_test() -> None:
    import logging

    import monkeytype

    lg = logging.getLogger("monkeytype")  # contained failures are logged by MonkeyType; keep our output readable
    lg.addHandler(logging.NullHandler())
    lg.propagate = False

    f = Path(monkeytype.__file__).resolve()
    if REPO not in f.parents:
        print(f"HARNESS-ERROR monkeytype imported from {f}, expected under {REPO}")
        sys.exit(2)


def load_prop(prop: str):
    return importlib.import_module(f"mcheck.props.{prop.lower()}")


def parse_known_findings() -> List[Dict[str, str]]:
    out = []
    p = VERIF / "KNOWN_FINDINGS.txt"
    if not p.exists():
        return out
    for line in p.read_text().splitlines():
        line = line.strip()
        if not line or line.startswith("#"):
            continue
        status, _, rest = line.partition(":")
        status = status.strip()
        if status not in ("open", "fixed"):
            continue
        fields: Dict[str, str] = {"status": status, "raw": line}
        rest = rest.strip()
        # property=<id> sig=<sig> kind=<kind> <free text>
        toks = rest.split(" ")
        free = []
        for t in toks:
            if "=" in t and t.split("=", 1)[0] in ("property", "sig", "kind") and t.split("=", 1)[0] not in fields:
                k, v = t.split("=", 1)
                fields[k] = v
            else:
                free.append(t)
        fields["text"] = " ".join(free)
        out.append(fields)
    return out


def make_tmp(seed: int, prop: str) -> Path:
    base = os.environ.get("MCHECK_TMP") or ("/dev/shm" if os.access("/dev/shm", os.W_OK) else tempfile.gettempdir())
    return Path(tempfile.mkdtemp(prefix=f"mcheck_{prop}_{seed}_", dir=base))


def write_evidence(prop: str, tier: str, seed: int, res: Result, wall: float, n_viol: int, mod) -> None:
    cov: Dict[str, Any] = {
        "states": max(res.states, 0),
        "transitions": max(res.transitions, 0),
        "traces_validated_against_impl": res.validated,
        "evaluations": res.evaluations,
        "distinct_nontrivial": len(res.nontrivial) + res.nontrivial_n,
        "distinct_outcomes": len(res.outcomes),
        "rule": getattr(mod, "RULE", ""),
        "samples": res.samples[:6] or ["<none>"],
        "exhaustive": not res.caps,
        "bounds": res.bounds,
        "caps_hit": res.caps,
        "coverage_obligations": res.obligations,
        "counters": dict(sorted(res.counters.items())),
        "explanation": getattr(mod, "EXPLANATION", ""),
    }
    cov.update(res.extra)
    ev = {
        "property_id": prop,
        "tier": tier,
        "seed": seed,
        "level": "model_checking",
        "coverage": cov,
        "assumptions": list(getattr(mod, "ASSUMPTIONS", [])),
        "wall_s": round(wall, 3),
        "violations": n_viol,
    }
    d = Path(os.environ.get("MCHECK_EVIDENCE_DIR") or (VERIF / "evidence"))
    d.mkdir(exist_ok=True)
    tmp = d / f".{prop}.json.tmp"
    tmp.write_text(json.dumps(ev, indent=1, default=str, sort_keys=True) + "\n")
    os.replace(tmp, d / f"{prop}.json")


def do_replay(path: str) -> int:
    data = json.loads(Path(path).read_text())
    prop = data["property"]
    assert_repo_under_test()
    mod = load_prop(prop)
    tmp = make_tmp(0, prop + "r")
    try:
        ctx = Ctx(prop, "quick", 0, tmp, 1)
        vs = mod.replay(data["case"], ctx)
    finally:
        shutil.rmtree(tmp, ignore_errors=True)
    want = (data.get("kind"), data.get("sig"))
    hit = [v for v in vs if (v.kind, v.sig) == want] or vs
    for v in hit[:5]:
        print(f"REPLAYED property={prop} kind={v.kind} sig={v.sig}: {v.msg}")
    if hit:
        return 1
    print(f"REPLAY-CLEAN property={prop} (case no longer violates)")
    return 0


def confirm(path: Path) -> bool:
    """Replay twice in fresh processes; both must reproduce."""
    for _ in range(2):
        r = subprocess.run([str(VERIF / "run_check"), "--replay", str(path)], capture_output=True, text=True)
        if r.returncode != 1:
            sys.stdout.write(r.stdout[-2000:])
            sys.stdout.write(r.stderr[-2000:])
            return False
    return True


def confirm_by_rerun(prop: str, tier: str, path: Path) -> bool:
    """Repeat the whole exploration once in a fresh process (without confirmation) and see whether it writes the same
    replay file again."""
    if os.environ.get("MCHECK_IS_RERUN"):
        return False
    env = dict(os.environ, MCHECK_NO_CONFIRM="1", MCHECK_IS_RERUN="1", MCHECK_EVIDENCE_DIR=tempfile.mkdtemp(prefix="mcheck_ev_"))
    try:
        r = subprocess.run([str(VERIF / "run_check"), prop, tier], capture_output=True, text=True, env=env)
    finally:
        shutil.rmtree(env["MCHECK_EVIDENCE_DIR"], ignore_errors=True)
    return r.returncode == 1 and f"replay={path}" in r.stdout


def main(argv: List[str]) -> int:
    if argv and argv[0] == "--replay":
        return do_replay(argv[1])
    if len(argv) < 1:
        print("usage: run_check <ID> <quick|thorough> | --replay <file>")
        return 2
    prop = argv[0].upper()
    tier = argv[1] if len(argv) > 1 else os.environ.get("VERIF_TIER", "quick")
    if tier not in ("quick", "thorough"):
        tier = "quick"
    try:
        seed = int(os.environ.get("VERIF_SEED", "0"))
    except ValueError:
        seed = 0
    workers = int(os.environ.get("MCHECK_WORKERS", str(min(16, os.cpu_count() or 4))))
    assert_repo_under_test()
    mod = load_prop(prop)
    tmp = make_tmp(seed, prop)
    t0 = time.time()
    ctx = Ctx(prop, tier, seed, tmp, workers)
    try:
        try:
            res: Result = mod.run(ctx)
        except HarnessError as e:
            print(f"HARNESS-ERROR property={prop}: {e}")
            return 2
        except Exception:
            traceback.print_exc()
            print(f"HARNESS-ERROR property={prop}: exploration crashed")
            return 2
    finally:
        shutil.rmtree(tmp, ignore_errors=True)
    wall = time.time() - t0

    known = [k for k in parse_known_findings() if k.get("property") == prop]
    open_ = [k for k in known if k["status"] == "open"]
    groups: Dict[tuple, List[Violation]] = {}
    for v in res.violations:
        groups.setdefault((v.kind, v.sig), []).append(v)
    unlisted = []
    printed = set()
    for (kind, sig), vs in sorted(groups.items()):
        match = [k for k in open_ if k.get("sig") == sig and k.get("kind", kind) == kind]
        if match:
            for k in match:
                if k["raw"] not in printed:
                    printed.add(k["raw"])
                    n = res.counters.get(f"violations[{kind}/{sig}]", len(vs))
                    print(f"KNOWN-FINDING: property={prop} sig={sig} kind={kind} cases={n} {k['text']}")
        else:
            unlisted.append(((kind, sig), vs))

    rc = 0
    rdir = VERIF / "replays" / prop
    if unlisted:
        rdir.mkdir(parents=True, exist_ok=True)
        confirmed = 0
        for (kind, sig), vs in unlisted:
            v = vs[0]
            path = rdir / f"{kind}__{sig}.json".replace("/", "_")
            path.write_text(json.dumps(v.to_json(), indent=1, default=str) + "\n")
            if confirmed >= 4:
                # enough counter-examples were replayed and confirmed; the others are written out but not each replayed
                # (one root cause can show under hundreds of input-class signatures)
                print(f"  further: kind={kind} sig={sig} cases={len(vs)} replay={path} (not replayed individually)")
                continue
            if os.environ.get("MCHECK_NO_CONFIRM") or confirm(path):
                confirmed += 1
                n = res.counters.get(f"violations[{kind}/{sig}]", len(vs))
                print(f"  detail: kind={kind} sig={sig} cases={n} msg={v.msg[:600]}")
                print(f"VIOLATION property={prop} replay={path}")
                rc = 1
            elif confirm_by_rerun(prop, tier, path):
                confirmed += 1
                # The single case is clean on its own but the violation shows again when the whole exploration is repeated
                # in a fresh process: the outcome depends on earlier calls of the same run (state carried between calls),
                # which the explored code is not supposed to have. The replay file documents the case; reproduce with the
                # full command.
                n = res.counters.get(f"violations[{kind}/{sig}]", len(vs))
                print(f"  detail: kind={kind} sig={sig} cases={n} history-dependent (reproduces only within the full exploration) msg={v.msg[:500]}")
                print(f"VIOLATION property={prop} replay={path}")
                rc = 1
            else:
                print(f"HARNESS-ERROR property={prop}: violation {kind}/{sig} did not reproduce from {path}")
                rc = max(rc, 2) if rc != 1 else 1
    unmet = [k for k, ok in res.obligations.items() if not ok]
    write_evidence(prop, tier, seed, res, wall, sum(len(v) for _, v in unlisted), mod)
    print(
        f"SUMMARY property={prop} tier={tier} seed={seed} states={res.states} transitions={res.transitions} "
        f"evaluations={res.evaluations} validated={res.validated} distinct_outcomes={len(res.outcomes)} "
        f"nontrivial={len(res.nontrivial) + res.nontrivial_n} bounds={json.dumps(res.bounds, default=str)} "
        f"caps={res.caps} wall={wall:.1f}s"
    )
    if unmet and rc == 0:
        print(f"HARNESS-ERROR property={prop}: vacuous exploration, unmet coverage obligations: {unmet}")
        return 2
    return rc


class HarnessError(Exception):
    pass


if __name__ == "__main__":
    # Make `mcheck.core.runner` the one module instance (python -m would otherwise load it twice).
    sys.modules.setdefault("mcheck.core.runner", sys.modules["__main__"])
    sys.exit(main(sys.argv[1:]))
