"""Reference oracles over typing objects: classify / struct / member / tight / witnesses.

Deliberately independent of monkeytype.compat / monkeytype.typing helpers (a mutated helper must not bend the
oracle); only the *layout* of MonkeyType's anonymous TypedDict (DUMMY_NAME with required_fields /
optional_fields) is known here.
"""
from __future__ import annotations

import collections
import collections.abc
import types as _types
import typing
from typing import Any, Dict, Iterable, List, Optional, Tuple

from mypy_extensions import _TypedDictMeta  # type: ignore

NoneType = type(None)
ANON = "DUMMY_NAME"

_CALLABLE_TYPES = (
    _types.FunctionType,
    _types.LambdaType,
    _types.MethodType,
    _types.BuiltinMethodType,
    _types.BuiltinFunctionType,
)


def classify(T: Any) -> tuple:
    """-> ('any',) | ('union', args) | ('atd', req, opt) | ('td', name, ann, total) | ('generic', origin, args|None)
    | ('class', C) | ('fref', s) | ('other', T).  args None = bare generic (List, Tuple, Callable...)."""
    if T is typing.Any:
        return ("any",)
    if isinstance(T, _TypedDictMeta):
        if T.__name__ == ANON and set(T.__annotations__) == {"required_fields", "optional_fields"}:
            return (
                "atd",
                dict(T.__annotations__["required_fields"].__annotations__),
                dict(T.__annotations__["optional_fields"].__annotations__),
            )
        return ("td", T.__name__, dict(T.__annotations__), getattr(T, "__total__", True))
    if isinstance(T, typing.ForwardRef):
        return ("fref", T.__forward_arg__)
    if T is typing.Union:
        return ("generic", typing.Union, None)
    if isinstance(T, typing._GenericAlias):  # type: ignore[attr-defined]
        origin = T.__origin__
        if origin is typing.Union:
            return ("union", tuple(T.__args__))
        args = tuple(T.__args__)
        if args == ((),):
            args = ()
        return ("generic", origin, args)
    if isinstance(T, typing._SpecialGenericAlias):  # type: ignore[attr-defined]
        return ("generic", T.__origin__, None)
    if isinstance(T, _types.GenericAlias):
        return ("generic", T.__origin__, tuple(T.__args__))
    if hasattr(_types, "UnionType") and isinstance(T, _types.UnionType):
        return ("union", tuple(T.__args__))
    if isinstance(T, type):
        return ("class", T)
    return ("other", T)


def struct(T: Any) -> Any:
    """Hashable structural form. Unions are frozensets; classes by identity; Tuple[()] != bare Tuple;
    anonymous TypedDicts by (required, optional) recursively (their __module__ is not structure)."""
    k = classify(T)
    tag = k[0]
    if tag == "any":
        return "Any"
    if tag == "union":
        return ("U", frozenset(struct(a) for a in k[1]))
    if tag == "atd":
        return (
            "ATD",
            frozenset((n, struct(t)) for n, t in k[1].items()),
            frozenset((n, struct(t)) for n, t in k[2].items()),
        )
    if tag == "td":
        return ("TD", k[1], frozenset((n, struct(t)) for n, t in k[2].items()), bool(k[3]))
    if tag == "generic":
        if k[2] is None:
            return ("G", k[1], "bare")
        return ("G", k[1], tuple("..." if a is Ellipsis else struct(a) for a in k[2]))
    if tag == "class":
        return ("C", k[1])
    if tag == "fref":
        return ("FR", k[1])
    return ("O", repr(k[1]))


def ostruct(T: Any) -> Any:
    """Like struct() but order-preserving (union members and TypedDict fields as sequences): a key under which only
    types that NO code can tell apart are merged (the rewriters read union.__args__[0])."""
    k = classify(T)
    tag = k[0]
    if tag == "any":
        return "Any"
    if tag == "union":
        return ("U", tuple(ostruct(a) for a in k[1]))
    if tag == "atd":
        return ("ATD", tuple((n, ostruct(t)) for n, t in k[1].items()), tuple((n, ostruct(t)) for n, t in k[2].items()))
    if tag == "td":
        return ("TD", k[1], tuple((n, ostruct(t)) for n, t in k[2].items()), bool(k[3]))
    if tag == "generic":
        if k[2] is None:
            return ("G", k[1], "bare")
        return ("G", k[1], tuple("..." if a is Ellipsis else ostruct(a) for a in k[2]))
    if tag == "class":
        return ("C", k[1])
    if tag == "fref":
        return ("FR", k[1])
    return ("O", repr(k[1]))


def show(T: Any) -> str:
    """Readable, deterministic rendering for samples/messages."""
    k = classify(T)
    tag = k[0]
    if tag == "any":
        return "Any"
    if tag == "union":
        return "Union[" + ", ".join(sorted(show(a) for a in k[1])) + "]"
    if tag == "atd":
        r = ", ".join(f"{n!r}: {show(t)}" for n, t in sorted(k[1].items()))
        o = ", ".join(f"{n!r}?: {show(t)}" for n, t in sorted(k[2].items()))
        return "TD{" + ", ".join(x for x in (r, o) if x) + "}"
    if tag == "td":
        return f"TypedDict({k[1]}, " + ", ".join(f"{n!r}: {show(t)}" for n, t in sorted(k[2].items())) + f", total={k[3]})"
    if tag == "generic":
        name = getattr(T, "_name", None) or getattr(k[1], "__name__", str(k[1]))
        if k[2] is None:
            return str(name)
        return f"{name}[" + ", ".join("..." if a is Ellipsis else show(a) for a in k[2]) + "]"
    if tag == "class":
        return k[1].__qualname__ if k[1].__module__ == "builtins" else f"{k[1].__module__}.{k[1].__qualname__}"
    if tag == "fref":
        return repr(k[1])
    return repr(T)


def _isinst(v: Any, C: type) -> bool:
    """isinstance without consulting __class__ / __instancecheck__ hooks."""
    return C in type(v).__mro__


def member(v: Any, T: Any, resolve=None) -> bool:
    """Conformance of a runtime value to a type (DESIGN 2.2). `resolve` maps forward-ref strings to types."""
    k = classify(T)
    tag = k[0]
    if tag == "any":
        return True
    if tag == "union":
        return any(member(v, a, resolve) for a in k[1])
    if tag == "fref":
        if resolve is None:
            return False
        return member(v, resolve(k[1]), resolve)
    if tag == "atd":
        req, opt = k[1], k[2]
        if not _isinst(v, dict):
            return False
        for n, t in req.items():
            if n not in v or not member(v[n], t, resolve):
                return False
        for n, val in v.items():
            if n in req:
                continue
            if n not in opt or not member(val, opt[n], resolve):
                return False
        return True
    if tag == "td":
        # a named (stub-generated) TypedDict: closed; required iff total, base classes folded in by caller
        ann, total = k[2], k[3]
        req_keys = getattr(T, "__required_keys__", None)
        if req_keys is None:
            req_keys = set(ann) if total else set()
        if not _isinst(v, dict):
            return False
        for n in req_keys:
            if n not in v:
                return False
        for n, val in v.items():
            if n not in ann or not member(val, ann[n], resolve):
                return False
        return True
    if tag == "class":
        C = k[1]
        if C is NoneType:
            return v is None
        return _isinst(v, C)
    if tag == "generic":
        origin, args = k[1], k[2]
        if origin in (list, set, frozenset):
            if not _isinst(v, origin):
                return False
            if args is None:
                return True
            return all(member(e, args[0], resolve) for e in origin.__iter__(v))
        if origin in (dict, collections.defaultdict):
            if not _isinst(v, origin):
                return False
            if args is None:
                return True
            return all(member(kk, args[0], resolve) and member(vv, args[1], resolve) for kk, vv in dict.items(v))
        if origin is tuple:
            if not _isinst(v, tuple):
                return False
            if args is None:
                return True
            if args == ():
                return len(v) == 0
            if len(args) == 2 and args[1] is Ellipsis:
                return all(member(e, args[0], resolve) for e in tuple.__iter__(v))
            return len(v) == len(args) and all(member(e, a, resolve) for e, a in zip(tuple.__iter__(v), args))
        if origin is type:
            if not isinstance(v, type):
                return False
            if args is None:
                return True
            a = classify(args[0])
            if a[0] == "any":
                return True
            if a[0] == "class":
                return a[1] in v.__mro__
            if a[0] == "union":
                return any(member(v, typing.Type[x], resolve) for x in a[1])
            return False
        if origin is collections.abc.Callable:
            return callable(v)
        if origin in (collections.abc.Iterator, collections.abc.Iterable, collections.abc.Generator):
            # value level: element types of a live iterator are unobservable
            if origin is collections.abc.Iterable:
                return hasattr(type(v), "__iter__")
            return hasattr(type(v), "__next__") and hasattr(type(v), "__iter__")
        if origin in (collections.abc.Coroutine, collections.abc.Awaitable):
            return hasattr(type(v), "__await__")
        if isinstance(origin, type):
            return _isinst(v, origin)
        return False
    return False


# ------------------------------------------------------------------------------------------------- tightness


def _exact_containers(vals: Iterable[Any], cls: type) -> List[Any]:
    return [v for v in vals if type(v) is cls]


def _subsets(sub: List[Any]):
    """Candidate witness sets for a union alternative: all conforming values first, then singletons, then the rest."""
    n = len(sub)
    yield list(sub)
    if n > 1:
        for v in sub:
            yield [v]
    if 2 < n <= 10:
        import itertools

        for r in range(2, n):
            for c in itertools.combinations(sub, r):
                yield list(c)


def tight(T: Any, vals: List[Any], any_ok: bool = False, path: str = "$") -> Optional[str]:
    """None if T admits nothing unwitnessed w.r.t. the observed values `vals` at this position (DESIGN C05),
    else a description of the first loose spot.  All of `vals` conform to T (C04 guarantees it).
    `any_ok`: an empty container was observed whose element position this is (the only justification of Any).
    A union alternative is justified if it is tight w.r.t. *some* non-empty subset of the values conforming to it
    (`List[Any]` by the observed `[]`, `List[int]` by the observed `[0]`)."""
    k = classify(T)
    tag = k[0]
    if tag == "any":
        if not any_ok:
            return f"{path}: Any without an observed empty container"
        if vals:
            return f"{path}: Any although values were observed here: {[type(v).__name__ for v in vals][:3]}"
        return None
    if not vals:
        return f"{path}: {show(T)} has no observed value"
    if tag == "union":
        non_any = [a for a in k[1] if a is not typing.Any]
        if len(non_any) != len(k[1]) and not any_ok:
            return f"{path}: Any in union without an observed empty container"
        for v in vals:
            if not any(member(v, a) for a in non_any):
                return f"{path}: observed value {v!r} only covered by Any"
        for a in non_any:
            sub = [v for v in vals if member(v, a)]
            if not sub:
                return f"{path}: union alternative {show(a)} not inhabited by any observed value"
            first = None
            for cand in _subsets(sub):
                r = tight(a, cand, False, path + "|" + show(a))
                if r is None:
                    first = None
                    break
                if first is None:
                    first = r
            else:
                return first
        return None
    if tag == "class":
        C = k[1]
        if C is NoneType:
            return None if any(v is None for v in vals) else f"{path}: None not observed"
        if not any(type(v) is C for v in vals):
            return f"{path}: class {show(C)} is not the exact runtime class of any observed value"
        return None
    if tag == "atd":
        req, opt = k[1], k[2]
        ds = [v for v in vals if _isinst(v, dict)]
        if not ds:
            return f"{path}: TypedDict without observed dict"
        for n, t in req.items():
            if not all(n in d for d in ds):
                return f"{path}: key {n!r} required but some observed dict lacks it"
            r = tight(t, [d[n] for d in ds if n in d], False, f"{path}.{n}")
            if r:
                return r
        for n, t in opt.items():
            if all(n in d for d in ds):
                return f"{path}: key {n!r} optional but every observed dict has it"
            r = tight(t, [d[n] for d in ds if n in d], False, f"{path}.{n}?")
            if r:
                return r
        return None
    if tag == "generic":
        origin, args = k[1], k[2]
        if origin in (list, set):
            cs = _exact_containers(vals, origin)
            if not cs:
                return f"{path}: {show(T)} without an observed exact {origin.__name__}"
            if args is None:
                return f"{path}: bare generic"
            elems = [e for c in cs for e in c]
            return tight(args[0], elems, any(len(c) == 0 for c in cs), path + "[]")
        if origin in (dict, collections.defaultdict):
            cs = _exact_containers(vals, origin)
            if not cs:
                return f"{path}: {show(T)} without an observed exact {origin.__name__}"
            if args is None:
                return f"{path}: bare generic"
            some_empty = any(len(c) == 0 for c in cs)
            r = tight(args[0], [kk for c in cs for kk in c.keys()], some_empty, path + "[k]")
            if r:
                return r
            return tight(args[1], [vv for c in cs for vv in c.values()], some_empty, path + "[v]")
        if origin is tuple:
            cs = _exact_containers(vals, tuple)
            if not cs:
                return f"{path}: tuple type without an observed exact tuple"
            if args is None:
                return f"{path}: bare Tuple"
            if args == ():
                return None if any(len(c) == 0 for c in cs) else f"{path}: Tuple[()] without observed ()"
            if len(args) == 2 and args[1] is Ellipsis:
                return tight(args[0], [e for c in cs for e in c], any(len(c) == 0 for c in cs), path + "[...]")
            cs = [c for c in cs if len(c) == len(args)]
            if not cs:
                return f"{path}: no observed tuple of length {len(args)}"
            for i, a in enumerate(args):
                r = tight(a, [c[i] for c in cs], False, f"{path}[{i}]")
                if r:
                    return r
            return None
        if origin is type:
            if args is None:
                return f"{path}: bare Type"
            a = classify(args[0])
            if a[0] != "class":
                return f"{path}: Type[{show(args[0])}] is not Type of a class"
            return None if any(v is a[1] for v in vals) else f"{path}: class object {show(a[1])} not observed"
        if origin is collections.abc.Callable:
            return None if any(isinstance(v, _CALLABLE_TYPES) for v in vals) else f"{path}: Callable without observed function"
        if origin is collections.abc.Iterator:
            if any(type(v) is _types.GeneratorType for v in vals) and args is not None and args[0] is typing.Any:
                return None
            return f"{path}: {show(T)} without an observed generator object"
        return f"{path}: unexpected generic {show(T)}"
    return f"{path}: unexpected type node {show(T)}"


# ------------------------------------------------------------------------------------------------- walking


def walk(T: Any):
    """Yield every type node (pre-order)."""
    yield T
    k = classify(T)
    if k[0] == "union":
        for a in k[1]:
            yield from walk(a)
    elif k[0] == "atd":
        for t in list(k[1].values()) + list(k[2].values()):
            yield from walk(t)
    elif k[0] == "td":
        for t in k[2].values():
            yield from walk(t)
    elif k[0] == "generic" and k[2]:
        for a in k[2]:
            if a is not Ellipsis:
                yield from walk(a)


def size(T: Any) -> int:
    return sum(1 for _ in walk(T))
