"""groundtruth: an independent recorder of what a program really did, built on sys.monitoring (CPython 3.12).

The interpreter itself tells the recorder whether a frame was left by return, yield or exception (PY_RETURN / PY_YIELD /
PY_UNWIND), so the recorder does not share the tracer's opcode inspection. It coexists with sys.setprofile.
Frames are kept by strong reference for the length of one scenario (ids are reused otherwise); this does not keep
generators alive, so dropping a generator still finalises it by reference counting.
"""
from __future__ import annotations

import inspect
import sys
from types import CodeType, FrameType
from typing import Any, Callable, Dict, List, Optional, Set, Tuple

TOOL = 3
MON = sys.monitoring
E = MON.events
_NAMED = (inspect.Parameter.POSITIONAL_ONLY, inspect.Parameter.POSITIONAL_OR_KEYWORD, inspect.Parameter.KEYWORD_ONLY)


class FrameRec:
    __slots__ = ("frame", "code", "args", "arg_names_all", "yields", "ret", "exit", "seq_start", "seq_end", "awaits", "resumes", "last_event", "throw_offset")

    def __init__(self, frame: FrameType, code: CodeType, seq: int) -> None:
        self.frame = frame
        self.code = code
        self.args: Dict[str, Any] = {}
        self.yields: List[Any] = []
        self.ret: Any = None
        self.exit: Optional[str] = None   # 'return' | 'unwind' | None (still live)
        self.seq_start = seq
        self.seq_end = -1
        self.awaits = 0
        self.resumes = 0
        self.last_event = "start"
        self.throw_offset = -1


class Recorder:
    """Usage: rec = Recorder(admit, typer); with rec: ...program... ; rec.completed() / rec.live()."""

    def __init__(self, admit: Callable[[CodeType], bool], typer: Callable[[Any], Any]) -> None:
        self.admit = admit
        self.typer = typer                # value -> type (MonkeyType's get_type with the run's k)
        self.frames: Dict[int, FrameRec] = {}
        self.order: List[FrameRec] = []   # completion order
        self.all: List[FrameRec] = []
        self.seq = 0
        self.param_names: Dict[int, List[str]] = {}
        self.finished_ids: Dict[int, "FrameRec"] = {}
        self.active = False
        self.events: List[FrameRec] = []  # one entry per frame activation (start / resume / throw), in order: the legacy
        #                                   profiler reports each of them as a 'call' event

    # -- parameter names from the code object's signature (not from co_varnames slicing)
    def names_of(self, code: CodeType) -> List[str]:
        k = id(code)
        if k not in self.param_names:
            import types

            try:
                f = types.FunctionType(code, {}, closure=tuple(types.CellType() for _ in code.co_freevars) or None)
                self.param_names[k] = [p.name for p in inspect.signature(f).parameters.values() if p.kind in _NAMED]
            except Exception:  # noqa: BLE001
                self.param_names[k] = []
        return self.param_names[k]

    def _frame(self) -> FrameType:
        return sys._getframe(2)

    def _forget(self, rec: "FrameRec") -> None:
        """A finished frame is released (so that its address can be reused, as it would be without the recorder); its
        identity is remembered only as a number for residue checks."""
        self.frames.pop(id(rec.frame), None)
        self.finished_ids[id(rec.frame)] = rec
        rec.frame = None  # type: ignore[assignment]

    def on_start(self, code: CodeType, offset: int) -> Any:
        if not self.admit(code):
            return MON.DISABLE
        fr = self._frame()
        self.seq += 1
        rec = FrameRec(fr, code, self.seq)
        loc = fr.f_locals
        for n in self.names_of(code):
            if n in loc:
                rec.args[n] = self.typer(loc[n])
        self.frames[id(fr)] = rec
        self.all.append(rec)
        self.events.append(rec)
        return None

    def on_resume(self, code: CodeType, offset: int) -> Any:
        if not self.admit(code):
            return MON.DISABLE
        rec = self.frames.get(id(self._frame()))
        if rec is not None:
            rec.resumes += 1
            rec.last_event = "resume"
            self.events.append(rec)
        return None

    def on_throw(self, code: CodeType, offset: int, exc: BaseException) -> Any:
        if not self.admit(code):
            return None
        fr = self._frame()
        rec = self.frames.get(id(fr))
        if rec is None:
            # throw() into a generator that was never started: the interpreter enters the frame only to raise in it;
            # this is the frame's one and only activation (the legacy profiler reports it as a call)
            self.seq += 1
            rec = FrameRec(fr, code, self.seq)
            loc = fr.f_locals
            for n in self.names_of(code):
                if n in loc:
                    rec.args[n] = self.typer(loc[n])
            self.frames[id(fr)] = rec
            self.all.append(rec)
            rec.last_event = "throw-unstarted"
            self.events.append(rec)
            return None
        self.events.append(rec)
        rec.last_event = "throw"
        rec.throw_offset = offset
        return None

    def on_yield(self, code: CodeType, offset: int, value: Any) -> Any:
        if not self.admit(code):
            return MON.DISABLE
        rec = self.frames.get(id(self._frame()))
        if rec is None:
            return None
        rec.last_event = "yield"
        if code.co_flags & inspect.CO_COROUTINE:
            rec.awaits += 1
        else:
            rec.yields.append(self.typer(value))
        return None

    def on_return(self, code: CodeType, offset: int, value: Any) -> Any:
        if not self.admit(code):
            return MON.DISABLE
        rec = self.frames.get(id(self._frame()))
        if rec is None or rec.exit is not None:
            return None
        rec.ret = self.typer(value)
        rec.exit = "return"
        self.seq += 1
        rec.seq_end = self.seq
        self.order.append(rec)
        self._forget(rec)
        return None

    def on_unwind(self, code: CodeType, offset: int, exc: BaseException) -> Any:
        if not self.admit(code):
            return None
        rec = self.frames.get(id(self._frame()))
        if rec is None or rec.exit is not None:
            return None
        rec.exit = "unwind"
        self.seq += 1
        rec.seq_end = self.seq
        self.order.append(rec)
        self._forget(rec)
        return None

    def __enter__(self) -> "Recorder":
        MON.use_tool_id(TOOL, "mcheck-groundtruth")
        MON.register_callback(TOOL, E.PY_START, self.on_start)
        MON.register_callback(TOOL, E.PY_RESUME, self.on_resume)
        MON.register_callback(TOOL, E.PY_YIELD, self.on_yield)
        MON.register_callback(TOOL, E.PY_RETURN, self.on_return)
        MON.register_callback(TOOL, E.PY_UNWIND, self.on_unwind)
        MON.register_callback(TOOL, E.PY_THROW, self.on_throw)
        MON.set_events(TOOL, E.PY_START | E.PY_RESUME | E.PY_YIELD | E.PY_RETURN | E.PY_UNWIND | E.PY_THROW)
        self.active = True
        return self

    def __exit__(self, *a: Any) -> None:
        self.active = False
        MON.set_events(TOOL, 0)
        for ev in (E.PY_START, E.PY_RESUME, E.PY_YIELD, E.PY_RETURN, E.PY_UNWIND, E.PY_THROW):
            MON.register_callback(TOOL, ev, None)
        MON.free_tool_id(TOOL)
        MON.restart_events()

    # -- views
    def completed_since(self, n: int) -> List[FrameRec]:
        return self.order[n:]

    def live(self) -> List[FrameRec]:
        return [r for r in self.all if r.exit is None]


def yield_union(types: List[Any]) -> Any:
    """What the yields of one call amount to, as a structure-comparable set (None if nothing was yielded)."""
    return None if not types else types


def covering_handlers(code: CodeType, offset: int) -> int:
    """Number of exception-table entries covering the instruction at `offset` (a generator body always has its outermost
    StopIteration guard, so 1 means: the yield is enclosed by no try block of the program)."""
    import dis

    try:
        entries = dis._parse_exception_table(code)  # type: ignore[attr-defined]
    except Exception:  # noqa: BLE001
        return -1
    return sum(1 for e in entries if e.start <= offset < e.end)
