"""stubeval: evaluate a rendered module stub using only names the stub itself provides (DESIGN 2.2).

parse(text, own_names) -> StubInfo with, per function, its ast.arguments, evaluated annotation objects (or an
error string per annotation), decorators and async flag; generated TypedDict classes as (required, optional)
field maps; import errors.  normalize() turns evaluated annotations that mention generated TypedDict classes (by
forward-reference string or by name) into MonkeyType-style anonymous TypedDicts so that struct()/member() apply.
"""
from __future__ import annotations

import ast
import builtins as builtins_mod
import typing
from typing import Any, Dict, List, Optional, Tuple

from mypy_extensions import TypedDict

from mcheck.oracles import types as O


class Err:
    def __init__(self, msg: str) -> None:
        self.msg = msg

    def __repr__(self) -> str:
        return f"Err({self.msg})"


class FuncInfo:
    def __init__(self, path: Tuple[str, ...], node: ast.AST) -> None:
        self.path = path                      # enclosing class names
        self.name = node.name                 # type: ignore[attr-defined]
        self.node = node
        self.is_async = isinstance(node, ast.AsyncFunctionDef)
        self.decorators = [ast.unparse(d) for d in node.decorator_list]  # type: ignore[attr-defined]
        self.ann: Dict[str, Any] = {}         # param name -> evaluated object | Err
        self.ann_src: Dict[str, str] = {}
        self.returns: Any = None              # evaluated | Err | None (absent)
        self.returns_src: Optional[str] = None
        self.has_return = False


class StubInfo:
    def __init__(self) -> None:
        self.syntax_error: Optional[str] = None
        self.import_errors: List[str] = []
        self.imports: List[Tuple[str, str, Optional[str]]] = []   # (module, name, asname)
        self.ns: Dict[str, Any] = {}
        self.funcs: Dict[Tuple[Tuple[str, ...], str], List[FuncInfo]] = {}
        self.td_classes: Dict[str, Dict[str, Any]] = {}          # name -> {fields:{n:obj|Err}, total, bases, src}
        self.other_classes: List[Tuple[str, ...]] = []
        self.errors: List[str] = []
        self.td_field_errors: List[str] = []
        self.duplicate_classes: List[str] = []


def mk_atd(req: Dict[str, Any], opt: Dict[str, Any]) -> Any:
    return TypedDict(
        O.ANON,
        {"required_fields": TypedDict("REQUIRED_TYPED_DICT_NAME", dict(req)), "optional_fields": TypedDict("OPTIONAL_TYPED_DICT_NAME", dict(opt))},
    )


def _eval(node: ast.AST, ns: Dict[str, Any]) -> Any:
    src = ast.unparse(node)
    try:
        return eval(compile(ast.Expression(body=node), "<stub>", "eval"), ns)  # type: ignore[arg-type]
    except Exception as e:  # noqa: BLE001
        return Err(f"{src!r}: {type(e).__name__}: {e}")


def parse(text: str, own_names: Optional[Dict[str, Any]] = None, lenient_modules: Optional[List[str]] = None) -> StubInfo:
    """`lenient_modules`: module names made available (plus every public typing name) ONLY to re-evaluate a
    generated TypedDict class field that does not evaluate with the stub's own names; the strict failure is
    recorded in td_field_errors, the lenient value lets the structural comparison of the rest proceed."""
    info = StubInfo()
    try:
        tree = ast.parse(text)
    except SyntaxError as e:
        info.syntax_error = f"{e.msg} at line {e.lineno}: {(e.text or '').strip()}"
        return info
    ns: Dict[str, Any] = {"__builtins__": __builtins__}
    if own_names:
        ns.update(own_names)
    info.ns = ns
    # 1. import block
    for node in tree.body:
        if isinstance(node, (ast.Import, ast.ImportFrom)):
            src = ast.unparse(node)
            try:
                exec(compile(ast.Module(body=[node], type_ignores=[]), "<stub-import>", "exec"), ns)
            except Exception as e:  # noqa: BLE001
                info.import_errors.append(f"{src}: {type(e).__name__}: {e}")
            if isinstance(node, ast.ImportFrom):
                for a in node.names:
                    info.imports.append((node.module or "", a.name, a.asname))
            else:
                for a in node.names:
                    info.imports.append((a.name, "", a.asname))
    # 2. classes: generated TypedDict classes are registered before annotations are evaluated (forward references)
    td_names = set()

    def is_td_base(cls: ast.ClassDef) -> bool:
        for b in cls.bases:
            if isinstance(b, ast.Name) and (b.id == "TypedDict" or b.id in td_names):
                return True
        return False

    changed = True
    classdefs = [n for n in tree.body if isinstance(n, ast.ClassDef)]
    _seen_names: Dict[str, int] = {}
    for c in classdefs:
        _seen_names[c.name] = _seen_names.get(c.name, 0) + 1
    info.duplicate_classes = sorted(n for n, k in _seen_names.items() if k > 1)
    while changed:
        changed = False
        for c in classdefs:
            if c.name not in td_names and is_td_base(c):
                td_names.add(c.name)
                changed = True
    # every base class a stub's class definition names must be provided by the stub's own imports (or be a class of the
    # stub / the target module): `class X(TypedDict)` without an import of TypedDict cannot be evaluated
    for c in classdefs:
        for b in c.bases:
            bname = b.id if isinstance(b, ast.Name) else None
            if bname is not None and bname not in ns and bname not in td_names and bname not in _seen_names and not hasattr(builtins_mod, bname):
                info.import_errors.append(f"class {c.name}({bname}): base class {bname} is not provided by the stub's imports")
    for c in classdefs:
        if c.name in td_names:
            total = True
            for kw in c.keywords:
                if kw.arg == "total":
                    total = bool(ast.literal_eval(kw.value))
            info.td_classes[c.name] = {"node": c, "total": total, "bases": [b.id for b in c.bases if isinstance(b, ast.Name)], "fields": {}}
            ns.setdefault(c.name, typing.ForwardRef(c.name))
    for name, rec in info.td_classes.items():
        for stmt in rec["node"].body:
            if isinstance(stmt, ast.AnnAssign) and isinstance(stmt.target, ast.Name):
                val = _eval(stmt.annotation, ns)
                if isinstance(val, Err) and lenient_modules is not None:
                    import importlib

                    lns = {n: getattr(typing, n) for n in typing.__all__}
                    lns.update(ns)
                    for m in lenient_modules:
                        try:
                            importlib.import_module(m)
                            lns[m.split(".")[0]] = importlib.import_module(m.split(".")[0])
                        except Exception:  # noqa: BLE001
                            pass
                    val2 = _eval(stmt.annotation, lns)
                    if not isinstance(val2, Err):
                        info.td_field_errors.append(f"TypedDict class {name}.{stmt.target.id}: {val.msg}")
                        val = val2
                rec["fields"][stmt.target.id] = val

    # 3. functions
    def visit(body: List[ast.stmt], path: Tuple[str, ...]) -> None:
        for node in body:
            if isinstance(node, (ast.FunctionDef, ast.AsyncFunctionDef)):
                fi = FuncInfo(path, node)
                a = node.args
                for arg in a.posonlyargs + a.args + a.kwonlyargs + ([a.vararg] if a.vararg else []) + ([a.kwarg] if a.kwarg else []):
                    if arg.annotation is not None:
                        fi.ann[arg.arg] = _eval(arg.annotation, ns)
                        fi.ann_src[arg.arg] = ast.unparse(arg.annotation)
                if node.returns is not None:
                    fi.has_return = True
                    fi.returns = _eval(node.returns, ns)
                    fi.returns_src = ast.unparse(node.returns)
                info.funcs.setdefault((path, node.name), []).append(fi)
            elif isinstance(node, ast.ClassDef):
                if not path and node.name in info.td_classes:
                    continue
                info.other_classes.append(path + (node.name,))
                visit(node.body, path + (node.name,))

    visit(tree.body, ())
    return info


def td_fields(info: StubInfo, name: str, seen: Optional[set] = None) -> Tuple[Dict[str, Any], Dict[str, Any]]:
    """(required, optional) of a generated class chain: fields of total classes are required, of total=False optional."""
    seen = seen or set()
    if name in seen or name not in info.td_classes:
        return {}, {}
    seen.add(name)
    rec = info.td_classes[name]
    req: Dict[str, Any] = {}
    opt: Dict[str, Any] = {}
    for b in rec["bases"]:
        r, o = td_fields(info, b, seen)
        req.update(r)
        opt.update(o)
    (req if rec["total"] else opt).update(rec["fields"])
    return req, opt


def normalize(T: Any, info: StubInfo, depth: int = 0) -> Any:
    """Replace references to generated TypedDict classes by anonymous TypedDicts, recursively."""
    if depth > 12:
        return T
    if isinstance(T, Err):
        return T
    if T is None:
        return O.NoneType
    if isinstance(T, str):
        name = T
    elif isinstance(T, typing.ForwardRef):
        name = T.__forward_arg__
    else:
        name = None
    if name is not None:
        if name in info.td_classes:
            req, opt = td_fields(info, name)
            for fn_, ft_ in list(req.items()) + list(opt.items()):
                nt = normalize(ft_, info, depth + 1)
                if isinstance(nt, Err):
                    return Err(f"TDFIELD {name}.{fn_}: {nt.msg}")
            return mk_atd({n: normalize(t, info, depth + 1) for n, t in req.items()}, {n: normalize(t, info, depth + 1) for n, t in opt.items()})
        # a forward reference to something else: evaluate in the stub namespace
        try:
            return normalize(eval(name, info.ns), info, depth + 1)
        except Exception as e:  # noqa: BLE001
            return Err(f"forward reference {name!r}: {type(e).__name__}: {e}")
    k = O.classify(T)
    if k[0] == "union":
        args = tuple(normalize(a, info, depth + 1) for a in k[1])
        if any(isinstance(a, Err) for a in args):
            return next(a for a in args if isinstance(a, Err))
        return typing.Union[args]
    if k[0] == "generic" and k[2]:
        args = tuple(a if a is Ellipsis else normalize(a, info, depth + 1) for a in k[2])
        if any(isinstance(a, Err) for a in args):
            return next(a for a in args if isinstance(a, Err))
        try:
            return T.copy_with(args)
        except Exception:  # noqa: BLE001
            return T
    return T
