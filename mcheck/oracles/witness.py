"""witnesses(T): a finite set of canonical inhabitants of a type (DESIGN 2.2). `C[Any]` is read as "the empty C",
as MonkeyType's inference produces it."""
from __future__ import annotations

import collections
import collections.abc
import typing
from typing import Any, List

import vfx.shapes as S

from mcheck.oracles.types import NoneType, classify

_SUBS = {
    S.Base: [S.Derived, S.Derived2, S.Multi],
    S.Derived: [S.Multi],
    S.Mixin: [S.Multi],
    int: [bool],
    object: [S.Other, int],
}
_INST = {int: 0, str: "a", bool: True, float: 1.5, bytes: b"x", NoneType: None, object: object()}


def _instance(C: type) -> Any:
    if C in _INST:
        return _INST[C]
    try:
        return C()
    except Exception:  # noqa: BLE001
        return None


def _hashable(v: Any) -> bool:
    try:
        hash(v)
        return True
    except TypeError:
        return False


def witnesses(T: Any, cap: int = 4, elem: bool = False) -> List[Any]:
    k = classify(T)
    tag = k[0]
    if tag == "any":
        return [] if elem else [0, S.Other()]
    if tag == "union":
        out: List[Any] = []
        for a in k[1]:
            out += witnesses(a, cap, elem)[:cap]
        return out
    if tag == "class":
        C = k[1]
        out = [_instance(C)] if (C is NoneType or _instance(C) is not None) else []
        for sub in _SUBS.get(C, []):
            out.append(_instance(sub))
        return out
    if tag == "atd":
        req, opt = k[1], k[2]
        base = {}
        for n, t in req.items():
            w = witnesses(t, cap)
            if not w:
                return []
            base[n] = w[0]
        out = [dict(base)]
        full = dict(base)
        for n, t in opt.items():
            w = witnesses(t, cap)
            if w:
                full[n] = w[0]
        if opt:
            out.append(full)
        # second witness per required field
        for n, t in req.items():
            w = witnesses(t, cap)
            for alt in w[1:cap]:
                d = dict(base)
                d[n] = alt
                out.append(d)
        return out
    if tag == "generic":
        origin, args = k[1], k[2]
        if origin is list:
            if args is None:
                return [[]]
            ws = witnesses(args[0], cap, elem=True)[:cap]
            return [[]] + [[w] for w in ws] + ([list(ws[:2])] if len(ws) > 1 else [])
        if origin is set:
            if args is None:
                return [set()]
            ws = [w for w in witnesses(args[0], cap, elem=True)[:cap] if _hashable(w)]
            return [set()] + [{w} for w in ws]
        if origin in (dict, collections.defaultdict):
            mk = (lambda d: d) if origin is dict else (lambda d: collections.defaultdict(int, d))
            if args is None:
                return [mk({})]
            ks = [w for w in witnesses(args[0], cap, elem=True)[:cap] if _hashable(w)]
            vs = witnesses(args[1], cap, elem=True)[:cap]
            out = [mk({})]
            for i, kk in enumerate(ks[:2]):
                for vv in vs:
                    out.append(mk({kk: vv}))
            return out
        if origin is tuple:
            if args is None or args == ():
                return [()]
            if len(args) == 2 and args[1] is Ellipsis:
                ws = witnesses(args[0], cap, elem=True)[:cap]
                return [()] + [(w,) for w in ws] + ([tuple(ws[:2])] if len(ws) > 1 else [])
            per = [witnesses(a, cap)[:cap] for a in args]
            if any(not p for p in per):
                return []
            out = [tuple(p[0] for p in per)]
            for i, p in enumerate(per):
                for alt in p[1:]:
                    t = [q[0] for q in per]
                    t[i] = alt
                    out.append(tuple(t))
            return out
        if origin is type:
            if args is None:
                return [int]
            a = classify(args[0])
            if a[0] == "class":
                return [a[1]] + list(_SUBS.get(a[1], []))
            if a[0] == "any":
                return [int, S.Other]
            if a[0] == "union":
                out = []
                for x in a[1]:
                    out += witnesses(typing.Type[x], cap)
                return out
            return []
        if origin is collections.abc.Callable:
            return [len, S.mfunc]
        if origin in (collections.abc.Iterator, collections.abc.Generator, collections.abc.Iterable):
            return [S.genfunc(), iter(())]
        return []
    return []
