"""C06 — the TypedDict size limit is honoured end to end; zero disables TypedDicts.
Engine E1: dicts of 0..12 keys (string / non-string / mixed) nested in every container kind, multisets straddling k,
x k in {0,1,2,3,10} x stages {get_type, shrink_types, CallTraceRow round trip, SQLiteStore round trip, module stub,
real tracing run with Config.max_typed_dict_size}."""
from __future__ import annotations

import ast
import io
import itertools
import sqlite3
from typing import Any, Dict, List, Tuple

from mcheck.core.par import run_shards
from mcheck.core.runner import Ctx, Result, Violation
from mcheck.gen import values as V
from mcheck.oracles import types as O

ID = "C06"
KS = [0, 1, 2, 3, 10]
RULE = (
    "string-key dicts of 0..12 keys, non-string and mixed-key dicts, nested in list/tuple/dict/defaultdict (depth<=2), and "
    "multisets of 1..3 dicts whose key-set union straddles k, x k in {0,1,2,3,10} x 6 stages; state = (multiset,k), "
    "transition = one stage evaluation; every TypedDict node / rendered TypedDict class is checked; non-trivial = case "
    "whose values contain an all-string-key non-empty dict"
)
EXPLANATION = "exhaustive bounded enumeration; oracle walks every type node and parses rendered stubs"
ASSUMPTIONS = ["the same k is used for tracing and stub generation (one Config)", "dict grammar of DESIGN C06"]


def dict_atoms() -> List[str]:
    out = [V.string_key_dict(n) for n in range(0, 13)]
    out += [V.string_key_dict(n, "'a'") for n in (1, 2, 3)]
    out += [V.string_key_dict(n, start=s) for n in (1, 2, 3) for s in (1, 2, 9)]
    out += ["{1: 0}", "{(0,): 0}", "{'k0': 0, 1: 0}", "{1: 0, 'k0': 0, 'k1': 0}", "{b'k0': 0}", "{None: 0, 'k0': 0}", "{MyStr('s'): 0}"]
    out += ["{'k0': %s}" % V.string_key_dict(n) for n in (0, 1, 2, 3, 4, 11)]
    out += ["{'k0': %s, 'k1': %s}" % (V.string_key_dict(a), V.string_key_dict(b, start=1)) for a in (1, 2) for b in (1, 2, 3)]
    out += ["{1: %s}" % V.string_key_dict(n) for n in (1, 3, 11)]
    out += ["{'k0': {'k0': %s}}" % V.string_key_dict(n) for n in (1, 2, 3)]
    # string keys that are not identifiers (they cannot be field names of a generated class)
    out += ["{'content-type': 0}", "{'from': 0, 'k0': 0}", "{'k0': {'x-y': 0}}", "{'': 0, '1x': 0}"]
    return out


def wrap(d: str) -> List[str]:
    return [
        d, f"[{d}]", f"({d},)", f"({d}, 0)", f"{{'x': {d}}}", f"{{1: {d}}}", f"defaultdict(int, {{'x': {d}}})",
        f"defaultdict(int, {{1: {d}}})", f"[[{d}]]", f"([{d}],)", f"{{'x': [{d}]}}", f"[({d},)]", f"{{0}} and [{d}, 0]",
    ]


def multisets() -> List[Tuple[str, ...]]:
    out: List[Tuple[str, ...]] = []
    atoms = dict_atoms()
    for d in atoms:
        for w in wrap(d):
            out.append((w,))
    # pairs/triples whose merged key sets straddle every k
    sk = V.string_key_dict
    sizes = [0, 1, 2, 3, 4, 9, 10, 11]
    for a in sizes:
        for b in sizes:
            for s in sorted({0, max(a - 1, 0), a}):
                if b == 0 and s:
                    continue
                for va, vb in (("0", "0"), ("0", "'a'")):
                    pair = (sk(a, va), sk(b, vb, start=s))
                    out.append(pair)
                    out.append((f"[{pair[0]}]", f"[{pair[1]}]"))
                    out.append((f"({pair[0]},)", f"({pair[1]},)"))
                    out.append((f"{{'x': {pair[0]}}}", f"{{'x': {pair[1]}}}"))
                    out.append((f"[{pair[0]}, {pair[1]}]",))
                    out.append((f"{{'x': {pair[0]}, 'y': {pair[1]}}}",))
                    out.append((f"defaultdict(int, {{'x': {pair[0]}, 'y': {pair[1]}}})",))
    for a, b, c in itertools.product([1, 2, 3], [1, 2, 3], [1, 2, 10]):
        for s1, s2 in ((0, 0), (1, 2), (a, a + b)):
            out.append((sk(a), sk(b, start=s1), sk(c, "'a'", start=s2)))
            out.append((f"[{sk(a)}]", f"[{sk(b, start=s1)}]", f"[{sk(c, start=s2)}]"))
    # second-level merges: lists of dicts (already merged TypedDicts with optional keys) merged again
    for a, b, c in itertools.product([1, 2], [1, 2], [1, 2]):
        for s1, s2, s3 in ((1, 2, 3), (a, a + b, a + b + c), (0, 2, 2), (1, 0, 1)):
            for vb in ("0", "'a'"):
                l1 = f"[{sk(a)}, {sk(b, vb, start=s1)}]"
                l2 = f"[{sk(c, start=s2)}, {sk(1, vb, start=s3)}]"
                l3 = f"[{sk(c, start=s2)}]"
                out += [(l1, l2), (l1, l3), (f"[{l1}, {l2}]",), (f"[{l1}, {l3}]",), (f"({l1},)", f"({l2},)"), (l1, l3, f"[{sk(1, start=s3 + 3)}]")]
    # k+2 and more traces: a key that some traces lack (optional), whose values are small dicts with a different key in every
    # trace - the nested merge under the optional key has more members than the limit allows keys
    for n in (3, 4, 5, 6):
        inner = [f"{{'k{j}': 0}}" for j in range(n)]
        out.append(tuple(f"{{'p': {d}}}" for d in inner) + ("{'q': 0}",))
        out.append(tuple(f"{{'p': {d}, 'r': 0}}" for d in inner) + ("{'r': 0}",))
        out.append(tuple(f"[{{'p': {d}}}]" for d in inner) + ("[{'q': 0}]",))
        out.append((("[" + ", ".join(f"{{'p': {d}}}" for d in inner) + ", {'q': 0}]"),))
    out += [(sk(2), "{1: 0}"), (sk(2), "{}"), (sk(2), "0"), (f"[{sk(2)}]", "[0]"), (sk(2), "{'k0': 0, 1: 0}"), ("{}", "{}"), ("{}",)]
    seen = set()
    res = []
    for m in out:
        if m not in seen:
            seen.add(m)
            res.append(m)
    return res


def _all_dicts(v: Any, acc: List[dict]) -> None:
    t = type(v)
    if isinstance(v, dict):
        acc.append(v)
        for kk, vv in dict.items(v):
            _all_dicts(kk, acc)
            _all_dicts(vv, acc)
    elif t in (list, tuple, set):
        for e in v:
            _all_dicts(e, acc)


def check_type(T: Any, k: int, vals: List[Any]) -> str | None:
    ds: List[dict] = []
    for v in vals:
        _all_dicts(v, ds)
    strdicts = [d for d in ds if len(d) > 0 and all(isinstance(x, str) for x in d)]
    allowed_keys = set()
    for d in strdicts:
        allowed_keys |= set(d)
    for n in O.walk(T):
        c = O.classify(n)
        if c[0] == "td":
            if c[1] in ("REQUIRED_TYPED_DICT_NAME", "OPTIONAL_TYPED_DICT_NAME"):
                continue
            return f"named-typed-dict|non-anonymous TypedDict {c[1]} in inferred type"
        if c[0] != "atd":
            continue
        if k == 0:
            return "typed-dict-at-k0|TypedDict although limit is 0"
        nkeys = len(c[1]) + len(c[2])
        if nkeys == 0:
            return "empty-typed-dict|empty TypedDict"
        if nkeys > k:
            return f"oversize|TypedDict with {nkeys} keys > limit {k}"
        extra = (set(c[1]) | set(c[2])) - allowed_keys
        if extra:
            return f"non-string-key-dict|TypedDict key(s) {sorted(extra)} do not come from an all-string-key dict"
    return None


def check_stub_text(text: str, k: int) -> str | None:
    try:
        tree = ast.parse(text)
    except SyntaxError as e:
        return None  # validity is C12's business
    classes: Dict[str, Tuple[int, List[str]]] = {}
    for node in tree.body:
        if isinstance(node, ast.ClassDef):
            bases = [b.id for b in node.bases if isinstance(b, ast.Name)]
            nf = sum(1 for s in node.body if isinstance(s, ast.AnnAssign))
            classes[node.name] = (nf, bases)

    def is_td(name: str) -> bool:
        if name == "TypedDict":
            return True
        return name in classes and any(is_td(b) for b in classes[name][1])

    def total(name: str) -> int:
        if name not in classes:
            return 0
        return classes[name][0] + sum(total(b) for b in classes[name][1])

    tds = [n for n in classes if is_td(n)]
    if k == 0:
        if tds:
            return f"typed-dict-at-k0|stub defines TypedDict class {tds[0]} although limit is 0"
        for node in ast.walk(tree):
            if isinstance(node, ast.ImportFrom) and any(a.name == "TypedDict" for a in node.names):
                return "typed-dict-at-k0|stub imports TypedDict although limit is 0"
        return None
    for n in tds:
        if total(n) > k:
            return f"oversize|stub TypedDict class chain {n} declares {total(n)} fields > limit {k}"
        if total(n) == 0:
            return f"empty-typed-dict|stub TypedDict class {n} is empty"
    return None


STAGES = ["get_type", "shrink", "row", "sqlite", "stub", "trace_e2e", "cli"]


def cli_stage(res: Result, exprs: Tuple[str, ...], k, tmpdb: str) -> None:
    """monkeytype.trace(config) -> SQLite file -> cli.main(['stub']) with the limit coming only from the Config
    (k None = the Config default, which must behave as 0)."""
    import os

    import mcfg
    import monkeytype
    import vfx.shapes as S
    from monkeytype import cli

    if os.path.exists(tmpdb):
        os.unlink(tmpdb)
    mcfg.reset(k=k, db=tmpdb, filter=lambda code: code.co_filename == S.__file__, rewriter=None)
    mcfg.STATE["rewriter"] = __import__("monkeytype.typing", fromlist=["NoOpRewriter"]).NoOpRewriter()
    vals = [V.ev(e) for e in exprs]
    try:
        with monkeytype.trace(mcfg.CONFIG):
            for v in vals:
                S.mfunc(v)
    except Exception as e:  # noqa: BLE001
        res.violate(Violation(ID, "cli", "exception", {"values": list(exprs), "k": k, "stage": "cli"}, f"trace() raised {e!r}"))
        return
    out, err = io.StringIO(), io.StringIO()
    res.transitions += 1
    res.evaluations += 1
    res.validated += 1
    keff = 0 if k is None else k
    case = {"values": list(exprs), "k": k, "stage": "cli"}
    try:
        rc = cli.main(["-c", "mcfg:fresh()", "stub", "vfx.shapes"], out, err)
        # the same with the global option that switches rewriting off: the size limit still applies
        out2, err2 = io.StringIO(), io.StringIO()
        rc2 = cli.main(["-c", "mcfg:fresh()", "--disable-type-rewriting", "stub", "vfx.shapes"], out2, err2)
        why2 = check_stub_text(out2.getvalue(), keff) if rc2 == 0 else "exception|rc=%r" % (rc2,)
        if why2:
            res.violate(Violation(ID, "cli", "disable-type-rewriting:" + why2.partition("|")[0], case, f"cli --disable-type-rewriting: {why2.partition('|')[2]} :: {out2.getvalue()[:300]}"))
    except Exception as e:  # noqa: BLE001
        res.violate(Violation(ID, "cli", "exception", case, f"cli stub raised {e!r}"))
        return
    if rc != 0:
        res.violate(Violation(ID, "cli", "nonzero-exit", case, f"cli stub rc={rc} err={err.getvalue()[:300]}"))
        return
    why = check_stub_text(out.getvalue(), keff)
    if why:
        res.violate(Violation(ID, "cli", why.partition("|")[0], case, f"cli: {why.partition('|')[2]} :: {out.getvalue()[:300]}"))
    if "TypedDict" in out.getvalue():
        res.oblige("saw:cli-stub-class", True)


def eval_case(res: Result, exprs: Tuple[str, ...], k: int, mods) -> None:
    get_type, shrink_types, CallTrace, CallTraceRow, SQLiteStore, build_stubs, trace_calls = mods
    import vfx.shapes as S

    vals = [V.ev(e) for e in exprs]
    case = {"values": list(exprs), "k": k}

    def bad(stage: str, why: str) -> None:
        sig, _, msg = why.partition("|") if "|" in why else ("exception", "", why)
        res.violate(Violation(ID, stage, sig, dict(case, stage=stage), f"{stage}: {msg or why}"))

    def step() -> None:
        res.transitions += 1
        res.evaluations += 1
        res.validated += 1

    # stage 1
    types = []
    for v in vals:
        step()
        try:
            t = get_type(v, max_typed_dict_size=k)
        except Exception as e:  # noqa: BLE001
            return bad("get_type", f"raised {e!r}")
        why = check_type(t, k, [v])
        if why:
            return bad("get_type", why)
        types.append(t)
    # stage 2
    step()
    try:
        T = shrink_types(types, k)
    except Exception as e:  # noqa: BLE001
        return bad("shrink", f"raised {e!r}")
    why = check_type(T, k, vals)
    if why:
        return bad("shrink", why)
    res.outcomes.add(hash(O.struct(T)))
    # stage 3/4: traces through row and store
    traces = [CallTrace(S.mfunc, {"x": t}, t, None) for t in types] + [CallTrace(S.genfunc, {"n": types[0]}, None, T)]
    step()
    try:
        rows = [CallTraceRow.from_trace(t) for t in traces]
        back = [r.to_trace() for r in rows]
    except Exception as e:  # noqa: BLE001
        return bad("row", f"raised {e!r}")
    for tr in back:
        for t in list(tr.arg_types.values()) + [tr.return_type, tr.yield_type]:
            if t is not None:
                why = check_type(t, k, vals)
                if why:
                    return bad("row", why)
    step()
    conn = sqlite3.connect(":memory:")
    try:
        from monkeytype.db.sqlite import create_call_trace_table

        create_call_trace_table(conn)
        store = SQLiteStore(conn)
        store.add(traces)
        got = [th.to_trace() for th in store.filter("vfx.shapes")]
    except Exception as e:  # noqa: BLE001
        return bad("sqlite", f"raised {e!r}")
    finally:
        conn.close()
    if len(got) < 1:
        return bad("sqlite", "no traces came back")
    for tr in got:
        for t in list(tr.arg_types.values()) + [tr.return_type, tr.yield_type]:
            if t is not None:
                why = check_type(t, k, vals)
                if why:
                    return bad("sqlite", why)
    # stage 5: module stub from the decoded traces
    step()
    try:
        stubs = build_stubs(got, k)
        text = stubs["vfx.shapes"].render()
    except Exception as e:  # noqa: BLE001
        return bad("stub", f"raised {e!r}")
    why = check_stub_text(text, k)
    if why:
        return bad("stub", why + " :: " + text[:300])
    # stage 6: the real tracer with the limit threaded through trace_calls
    step()
    logged: List[Any] = []

    class L:
        def log(self, t):
            logged.append(t)

        def flush(self):
            pass

    with trace_calls(L(), k, lambda code: code.co_filename == S.__file__):
        for v in vals:
            S.mfunc(v)
    if len(logged) != len(vals):
        return bad("trace_e2e", f"{len(logged)} traces for {len(vals)} calls")
    for tr in logged:
        for t in list(tr.arg_types.values()) + [tr.return_type]:
            if t is not None:
                why = check_type(t, k, vals)
                if why:
                    return bad("trace_e2e", why)
    try:
        text = build_stubs(logged, k)["vfx.shapes"].render()
    except Exception as e:  # noqa: BLE001
        return bad("trace_e2e", f"stub raised {e!r}")
    why = check_stub_text(text, k)
    if why:
        return bad("trace_e2e", why)
    ds: List[dict] = []
    for v in vals:
        _all_dicts(v, ds)
    if any(len(d) and all(isinstance(x, str) for x in d) for d in ds):
        res.nontrivial_n += 1
    has_td = any(O.classify(n)[0] == "atd" for n in O.walk(T))
    res.oblige("saw:typed-dict-kept" if has_td else "saw:typed-dict-collapsed-or-absent", True)
    if "TypedDict" in text:
        res.oblige("saw:stub-class", True)
        if "NonTotal" in text:
            res.oblige("saw:stub-nontotal-chain", True)


def _mods():
    from monkeytype.db.sqlite import SQLiteStore
    from monkeytype.encoding import CallTraceRow
    from monkeytype.stubs import build_module_stubs_from_traces
    from monkeytype.tracing import CallTrace, trace_calls
    from monkeytype.typing import get_type, shrink_types

    return get_type, shrink_types, CallTrace, CallTraceRow, SQLiteStore, build_module_stubs_from_traces, trace_calls


def default_config_check(res: Result) -> None:
    """Config.max_typed_dict_size defaults to 0 for both Config and DefaultConfig and is what trace()/get_stub read."""
    from monkeytype.config import Config, DefaultConfig

    res.transitions += 1
    res.evaluations += 1
    d = DefaultConfig().max_typed_dict_size()
    if d != 0:
        res.violate(Violation(ID, "config", "default-not-zero", {"values": [], "k": -1, "stage": "config"}, f"DefaultConfig.max_typed_dict_size() = {d}"))


def extra_stages(res: Result) -> None:
    """(a) traces recorded under a larger limit, stub generated under a smaller one (top-level dict positions, where the
    stub-time limit is what bounds the merge); (b) a generator yielding 6..7 dicts (one union member per yield), stubbed
    through the default rewriter chain."""
    import vfx.shapes as S
    from monkeytype.stubs import build_module_stubs_from_traces
    from monkeytype.tracing import CallTrace, trace_calls
    from monkeytype.typing import DEFAULT_REWRITER, get_type

    sk = V.string_key_dict
    for n, m in itertools.product(range(1, 8), range(0, 4)):
        vals = [V.ev(sk(n))] + ([V.ev(sk(m, "'a'", start=n - 1))] if m else [])
        for k_rec in (3, 10, 200):
            types = [get_type(v, k_rec) for v in vals]
            for k_stub in (0, 1, 2, 3):
                res.states += 1
                res.transitions += 1
                res.evaluations += 1
                res.validated += 1
                case = {"values": [sk(n)] + ([sk(m, "'a'", start=n - 1)] if m else []), "k": k_stub, "stage": "restub", "k_rec": k_rec}
                try:
                    traces = [CallTrace(S.mfunc, {"x": t}, t, None) for t in types]
                    text = build_module_stubs_from_traces(traces, k_stub)["vfx.shapes"].render()
                except Exception as e:  # noqa: BLE001
                    res.violate(Violation(ID, "restub", "exception", case, f"raised {e!r}"))
                    continue
                why = check_stub_text(text, k_stub)
                if why:
                    res.violate(Violation(ID, "restub", why.partition("|")[0], case, f"recorded with limit {k_rec}, stubbed with limit {k_stub}: {why.partition('|')[2]} :: {text[:300]}"))
    res.oblige("saw:restub-stage", True)
    for k in KS:
        for shape in ("distinct-keys", "two-keys", "shared-key", "few-keys-many-shapes", "four-keys-many-shapes"):
            if shape == "few-keys-many-shapes":
                dicts = [{n: v} for n in ("a", "b", "c") for v in (0, "s")]
            elif shape == "four-keys-many-shapes":
                dicts = [{n: v, "z": 1.5} for n in ("a", "b", "c") for v in (0, "s")] + [{"a": None}]
            elif shape == "distinct-keys":
                dicts = [{f"k{i}": i} for i in range(7)]
            elif shape == "two-keys":
                dicts = [{f"k{i}": i, f"k{i + 1}": "s"} for i in range(6)]
            else:
                dicts = [{"k0": i, f"x{i}": None} for i in range(6)]
            logged: List[Any] = []

            class L:
                def log(self, t):
                    logged.append(t)

                def flush(self):
                    pass

            with trace_calls(L(), k, lambda code: code.co_filename == S.__file__):
                list(S.yield_all(dicts))
            res.states += 1
            res.transitions += 1
            res.evaluations += 1
            res.validated += 1
            case = {"values": [shape], "k": k, "stage": "generator"}
            for rname, rw in (("default", DEFAULT_REWRITER), ("none", None)):
                try:
                    text = build_module_stubs_from_traces(logged, k, rewriter=rw)["vfx.shapes"].render()
                except Exception as e:  # noqa: BLE001
                    res.violate(Violation(ID, "generator", "exception", case, f"raised {e!r}"))
                    continue
                why = check_stub_text(text, k)
                if why:
                    res.violate(Violation(ID, "generator", why.partition("|")[0], case, f"generator yielding {len(dicts)} dicts, rewriter {rname}: {why.partition('|')[2]} :: {text[:400]}"))
    res.oblige("saw:generator-stage", True)
    # tracing sessions that share ONE long-lived logger object, every ordered pair and triple of limits: what a session logs
    # obeys the limit of THAT session
    class SharedLogger:
        def __init__(self):
            self.traces: List[Any] = []

        def log(self, t):
            self.traces.append(t)

        def flush(self):
            pass

    val = {"k0": 0, "k1": "s", "k2": 1.5}
    for limits in list(itertools.permutations((10, 2, 0), 3)) + [(10, 0), (3, 2), (0, 3), (2, 10)]:
        lg = SharedLogger()
        marks = []
        for k in limits:
            n0 = len(lg.traces)
            with trace_calls(lg, k, lambda code: code.co_filename == S.__file__):
                S.mfunc(dict(val))
                S.mfunc([dict(val)])
            marks.append((k, n0, len(lg.traces)))
        res.states += 1
        res.transitions += len(limits)
        res.evaluations += 1
        res.validated += 1
        case = {"values": [repr(val)], "k": list(limits), "stage": "sessions"}
        for k, a, b in marks:
            for t in lg.traces[a:b]:
                for T in list(t.arg_types.values()) + [t.return_type]:
                    why = check_type(T, k, [val, [val]]) if T is not None else None
                    if why and not why.startswith("nonmember"):
                        res.violate(Violation(ID, "sessions", why.partition("|")[0], case, f"sessions with limits {limits} sharing one logger: the session with limit {k} logged {O.show(T)}: {why.partition('|')[2]}"))
    res.oblige("saw:sessions-sharing-a-logger", True)
    # (d) ONE generator call that yields several string-keyed dicts, each too large for the limit, whose values are small
    #     dicts (the yield type accumulates as a union of Dict[str, TypedDict] members): stubbed through the default
    #     rewriter chain, each shipped rewriter alone, and no rewriter
    from monkeytype import typing as MT

    rws = [("default", DEFAULT_REWRITER), ("none", None)] + [(type(r).__name__, r) for r in (MT.RemoveEmptyContainers(), MT.RewriteConfigDict(), MT.RewriteLargeUnion(), MT.RewriteGenerator())]
    for k in (1, 2, 3):
        for nyields in (2, 3):
            for same_outer in (True, False):
                vals = []
                for y in range(nyields):
                    inner = {f"f{y}_{j}": j for j in range(k)}
                    vals.append({(f"o{i}" if same_outer else f"o{y}_{i}"): dict(inner) for i in range(k + 1)})
                tr = CallTrace(S.genfunc, {"n": int})
                for v in vals:
                    tr.add_yield_type(get_type(v, k))
                tr.return_type = type(None)
                for rname, rw in rws:
                    res.states += 1
                    res.transitions += 1
                    res.evaluations += 1
                    res.validated += 1
                    case = {"values": [repr(v) for v in vals], "k": k, "stage": "one-call-many-yields", "rewriter": rname}
                    try:
                        text = build_module_stubs_from_traces([tr], k, rewriter=rw)["vfx.shapes"].render()
                    except Exception as e:  # noqa: BLE001
                        res.violate(Violation(ID, "stub", "exception", case, f"one generator call yielding {nyields} dicts, rewriter {rname}: raised {e!r}"))
                        continue
                    why = check_stub_text(text, k)
                    if why:
                        res.violate(Violation(ID, "stub", "one-call-many-yields:" + why.partition("|")[0], case, f"one generator call yielding {nyields} oversize dicts of small dicts, limit {k}, rewriter {rname}: {why.partition('|')[2]} :: {text[:400]}"))
    res.oblige("saw:one-call-many-yields", True)


def run(ctx: Ctx) -> Result:
    ms = multisets()
    nshards = ctx.workers * 2

    def shard(ctx: Ctx, si: int) -> Result:
        res = Result()
        mods = _mods()
        for i in range(si, len(ms), nshards):
            res.states += 1
            # (limits in a non-monotonic order, the largest first: whatever one limit computed must not serve another)
            for k in sorted(KS, key=lambda k: {10: 0, 0: 1, 3: 2, 1: 3, 2: 4}.get(k, 5)):
                eval_case(res, ms[i], k, mods)
            if ctx.tier == "thorough" or i % 5 == 0:
                # limits in a non-monotonic order: every CLI invocation must use the limit of ITS config, larger or
                # smaller than the one before it in the same process
                for k in [10, 0, 3, None, 1, 2]:
                    cli_stage(res, ms[i], k, str(ctx.tmp / f"c06_{si}.sqlite3"))
            if i % 401 == 0:
                res.sample({"values": list(ms[i])})
        return res

    res = run_shards(ctx, shard, list(range(nshards)))
    default_config_check(res)
    extra_stages(res)
    res.bounds.update({"k": KS, "multisets": len(ms), "stages": STAGES, "max_keys": 12})
    for o in ("saw:sessions-sharing-a-logger", "saw:one-call-many-yields", "saw:restub-stage", "saw:generator-stage", "saw:cli-stub-class", "saw:typed-dict-kept", "saw:typed-dict-collapsed-or-absent", "saw:stub-class", "saw:stub-nontotal-chain"):
        res.obligations.setdefault(o, False)
    return res


def replay(case: Dict[str, Any], ctx: Ctx) -> List[Violation]:
    res = Result()
    if case.get("stage") == "config":
        default_config_check(res)
    elif case.get("stage") in ("restub", "generator"):
        extra_stages(res)
        res.violations = [v for v in res.violations if v.case.get("stage") == case["stage"]]
    elif case.get("stage") == "cli":
        cli_stage(res, tuple(case["values"]), case["k"], str(ctx.tmp / "c06_replay.sqlite3"))
    else:
        eval_case(res, tuple(case["values"]), case["k"], _mods())
    return res.violations
