"""C04 — inferred types admit every observed value, for every TypedDict size limit; merge is order/multiplicity
independent.  Engine E1: exhaustive enumeration of value multisets x k x orderings, real get_type/shrink_types."""
from __future__ import annotations

from typing import Any, Dict, List

from mcheck.core.runner import Ctx, Result, Violation
from mcheck.oracles import types as O
from mcheck.props import infer_common as IC

ID = "C04"
RULE = (
    "every multiset of 1..3 (thorough: ..4) grammar values (depth<=2, thorough depth 3) x k in {0,1,2,3,10,200} x every "
    "permutation and single-duplication ordering of the per-value types; state = (multiset,k) case, transition = one "
    "shrink_types call judged by member()/struct(); non-trivial = case selecting a merge arm other than all-equal"
)
EXPLANATION = "exhaustive bounded enumeration; oracle: reference conformance (member) + structural equality across orderings"
ASSUMPTIONS = ["value grammar of DESIGN section 3", "reference oracle mcheck/oracles/types.py (unit-tested)"]


def judge(res: Result, case: Dict[str, Any], vals: List[Any], typ, k: int, get_type, shrink_types) -> None:
    n = len(vals)
    per = [typ(p) for p in range(2 * n)]
    bad = [p for p in per if p[0] != "ok"]
    if bad:
        res.violate(Violation(ID, "exception", "get_type", case, f"get_type raised {bad[0][1]}"))
        return
    types = [p[1] for p in per]
    arm = IC.arm_of(types[:n], k)
    res.oblige(f"arm:{arm}:{'k>0' if k > 0 else 'k=0'}", True)
    ref = None
    for order in IC.orderings(n):
        res.transitions += 1
        res.evaluations += 1
        res.validated += 1
        try:
            T = shrink_types([types[i] for i in order], k)
        except Exception as e:  # noqa: BLE001
            res.violate(Violation(ID, "exception", f"shrink:{arm}", dict(case, order=list(order)), f"shrink_types raised {e!r}"))
            return
        for v in vals:
            if not O.member(v, T):
                res.violate(Violation(ID, "nonmember", f"{arm}", dict(case, order=list(order)), f"value {v!r} not in {O.show(T)}"))
                return
        s = O.struct(T)
        if ref is None:
            ref = (s, T)
        elif s != ref[0]:
            res.violate(Violation(ID, "order", f"{arm}", dict(case, order=list(order)), f"{O.show(ref[1])} vs {O.show(T)} for ordering {order}"))
            return
    res.outcomes.add(hash(ref[0]))
    if arm != "all_equal":
        res.nontrivial_n += 1
    # the same collection merged the way stub generation merges it: one call trace per value (argument, return and yield
    # position), in both orders and with one duplicated trace - every value is a member at every position and the merged
    # types are the direct merge
    if n >= 2 and k in (0, 2, 10):
        from monkeytype.stubs import shrink_traced_types
        from monkeytype.tracing import CallTrace

        import vfx.shapes as S

        first = None
        for order in (tuple(range(n)), tuple(reversed(range(n))), tuple(range(n)) + (n,)):
            res.transitions += 1
            traces = [CallTrace(S.genfunc, {"n": types[i]}, types[i], types[i]) for i in order]
            try:
                args, ret, yld = shrink_traced_types(traces, k)
            except Exception as e:  # noqa: BLE001
                res.violate(Violation(ID, "exception", f"shrink_traced_types:{arm}", dict(case, order=list(order)), f"shrink_traced_types raised {e!r}"))
                return
            # calls with the SAME argument type that differ only in what they returned / yielded
            same_arg = [CallTrace(S.genfunc, {"n": int}, types[i], types[i]) for i in order]
            try:
                _a2, ret2, yld2 = shrink_traced_types(same_arg, k)
            except Exception as e:  # noqa: BLE001
                res.violate(Violation(ID, "exception", f"shrink_traced_types:{arm}", dict(case, order=list(order)), f"shrink_traced_types raised {e!r}"))
                return
            for label2, TT2 in (("return", ret2), ("yield", yld2)):
                if TT2 is None or any(not O.member(v, TT2) for v in vals) or O.struct(TT2) != ref[0]:
                    res.violate(Violation(ID, "nonmember", f"traces-same-arguments:{label2}:{arm}", dict(case, order=list(order)), f"calls with one argument type and different results: merged {label2} type is {O.show(TT2) if TT2 is not None else None}, the direct merge is {O.show(ref[1])}"))
                    return
            # the same calls collected the way the stub pipeline collects them - as a SET of traces per function (what
            # StubIndexBuilder.log and build_module_stubs_from_traces keep): calls that differ only in what they yielded,
            # or only in what they returned, are different observations and none may be absorbed by another
            if order == tuple(range(n)) and k == 2:
                from monkeytype.stubs import StubIndexBuilder

                for label3, mk in (("yield", lambda t: CallTrace(S.genfunc, {"n": int}, O.NoneType, t)), ("return", lambda t: CallTrace(S.genfunc, {"n": int}, t, None)), ("arg", lambda t: CallTrace(S.genfunc, {"n": t}, O.NoneType, int))):
                    builder = StubIndexBuilder(".*", k)
                    for i in order:
                        builder.log(mk(types[i]))
                    res.transitions += 1
                    try:
                        a3, r3, y3 = shrink_traced_types(builder.index[S.genfunc], k)
                    except Exception as e:  # noqa: BLE001
                        res.violate(Violation(ID, "exception", f"shrink_traced_types:{arm}", dict(case, order=list(order)), f"shrink_traced_types over the indexed set raised {e!r}"))
                        return
                    TT3 = {"yield": y3, "return": r3, "arg": a3.get("n")}[label3]
                    if TT3 is None or any(not O.member(v, TT3) for v in vals):
                        res.violate(Violation(ID, "nonmember", f"traces-indexed-as-a-set:{label3}:{arm}", dict(case, order=list(order)), f"calls differing only in the {label3} type, collected by StubIndexBuilder: merged {label3} type is {O.show(TT3) if TT3 is not None else None}: not every value of {case['values']} is a member"))
                        return
            # the yield type as the tracer accumulates it: one call that yields the values one after the other
            one_call = CallTrace(S.genfunc, {"n": types[order[0]]}, None, None)
            for i in order:
                one_call.add_yield_type(types[i])
            try:
                _a, _r, yld_acc = shrink_traced_types([one_call], k)
            except Exception as e:  # noqa: BLE001
                res.violate(Violation(ID, "exception", f"shrink_traced_types:{arm}", dict(case, order=list(order)), f"shrink_traced_types raised {e!r}"))
                return
            for label, TT in (("arg", args.get("n")), ("return", ret), ("yield", yld), ("yield-accumulated-in-one-call", yld_acc)):
                if TT is None or any(not O.member(v, TT) for v in vals):
                    res.violate(Violation(ID, "nonmember", f"traces:{label}:{arm}", dict(case, order=list(order)), f"merged {label} type of the traces is {O.show(TT) if TT is not None else None}: not every value of {case['values']} is a member"))
                    return
                if label != "yield-accumulated-in-one-call" and O.struct(TT) != ref[0]:
                    res.violate(Violation(ID, "order", f"traces:{label}:{arm}", dict(case, order=list(order)), f"merged {label} type of the traces {O.show(TT)} differs from the direct merge {O.show(ref[1])}"))
                    return


def mock_stage() -> Result:
    """Values whose class exists once per INSTANCE (unittest.mock objects: every Mock() is the only instance of its own
    subclass), evaluated once and merged with ordinary values in every order: membership only (re-evaluating such an
    expression gives another class, so the enumeration above cannot hold them)."""
    import itertools
    from unittest import mock

    from monkeytype.typing import get_type, shrink_types

    res = Result()
    for mk in (mock.Mock, mock.MagicMock, mock.NonCallableMock):
        m1, m2 = mk(), mk()
        groups = [[m1, 1], [m1, m2, None], [[m1], [1, 2]], [{"a": m1}, {"a": 1}], [(m1, 1), (1, 1)], [m1, [m2], "s"]]
        for vals in groups:
            for k in (0, 3):
                types = [get_type(v, k) for v in vals]
                for order in itertools.permutations(range(len(vals))):
                    res.states += 1
                    res.transitions += 1
                    res.evaluations += 1
                    res.validated += 1
                    case = {"values": [f"{mk.__name__}-group-{groups.index(vals)}"], "k": k, "order": list(order), "mock": True}
                    try:
                        T = shrink_types([types[i] for i in order], k)
                    except Exception as e:  # noqa: BLE001
                        res.violate(Violation(ID, "exception", "mock-values", case, f"shrink_types raised {e!r}"))
                        continue
                    bad = [v for v in vals if not O.member(v, T)]
                    if bad:
                        res.violate(Violation(ID, "nonmember", "mock-values", case, f"values {vals!r} merged in order {order} at k={k}: {O.show(T)} does not admit {bad[0]!r}"))
                    else:
                        res.nontrivial_n += 1
    res.oblige("mock-values", True)
    return res


def run(ctx: Ctx) -> Result:
    res = IC.run_inference(ctx, ID, judge)
    res.merge(mock_stage())
    res.obligations.setdefault("mock-values", False)
    for a in ("all_td", "all_td_oversize", "all_equal", "all_lists", "mixed"):
        res.obligations.setdefault(f"arm:{a}:k>0", False)
    return res


def replay(case: Dict[str, Any], ctx: Ctx) -> List[Violation]:
    if case.get("mock"):
        return mock_stage().violations
    return IC.replay_case(case, judge)
