"""Shared machinery for C15 / C16: AST eraser-and-diff, comment extraction, import inventory, position lookup."""
from __future__ import annotations

import ast
import copy
import io
import tokenize
from typing import Any, Dict, List, Optional, Set, Tuple

SCAFFOLD = {("__future__", "annotations"), ("typing", "TYPE_CHECKING")}


def comments(src: str) -> List[str]:
    out = []
    try:
        for tok in tokenize.generate_tokens(io.StringIO(src).readline):
            if tok.type == tokenize.COMMENT:
                out.append(tok.string)
    except (tokenize.TokenError, IndentationError, SyntaxError):
        return ["<untokenizable>"]
    return out


def stub_imports(stub_tree: ast.Module) -> Set[Tuple[str, str]]:
    s: Set[Tuple[str, str]] = set()
    for n in stub_tree.body:
        if isinstance(n, ast.ImportFrom):
            for a in n.names:
                s.add((n.module or "", a.name))
        elif isinstance(n, ast.Import):
            for a in n.names:
                s.add((a.name, ""))
    return s


def import_inventory(tree: ast.AST) -> List[Tuple[str, str, Optional[str], str]]:
    """Every imported alias with its placement: (module, name, asname, where) where = 'module' | 'type_checking' | 'not_type_checking' (else branch) |
    'function:<name>' | 'other'."""
    out: List[Tuple[str, str, Optional[str], str]] = []

    def is_tc(test: ast.AST) -> bool:
        return (isinstance(test, ast.Name) and test.id == "TYPE_CHECKING") or (isinstance(test, ast.Attribute) and test.attr == "TYPE_CHECKING")

    def visit(body: List[ast.stmt], where: str) -> None:
        for n in body:
            if isinstance(n, ast.ImportFrom):
                for a in n.names:
                    out.append((n.module or "", a.name, a.asname, where))
            elif isinstance(n, ast.Import):
                for a in n.names:
                    out.append((a.name, "", a.asname, where))
            elif isinstance(n, ast.If) and is_tc(n.test):
                visit(n.body, "type_checking" if where == "module" else where)
                visit(n.orelse, "not_type_checking" if where == "module" else where)   # runtime only: a type checker never sees it
            elif isinstance(n, (ast.FunctionDef, ast.AsyncFunctionDef)):
                visit(n.body, f"function:{n.name}")
            elif isinstance(n, ast.ClassDef):
                visit(n.body, where if where != "module" else "class:" + n.name)
            elif isinstance(n, (ast.If, ast.Try, ast.With, ast.For, ast.While)):
                for fld in ("body", "orelse", "finalbody"):
                    visit(getattr(n, fld, []) or [], where)
                for h in getattr(n, "handlers", []) or []:
                    visit(h.body, where)

    visit(tree.body, "module")  # type: ignore[attr-defined]
    return out


class Eraser(ast.NodeTransformer):
    """Erase what `apply` is allowed to add: parameter/return annotations, imports of the stub's import block and the
    __future__/TYPE_CHECKING scaffolding, import-only `if TYPE_CHECKING:` blocks, generated TypedDict classes."""

    def __init__(self, allowed: Set[Tuple[str, str]], generated_classes: Set[str]) -> None:
        self.allowed = allowed | SCAFFOLD
        self.generated = generated_classes

    def _strip_args(self, node):
        a = node.args
        for arg in a.posonlyargs + a.args + a.kwonlyargs + ([a.vararg] if a.vararg else []) + ([a.kwarg] if a.kwarg else []):
            arg.annotation = None
        node.returns = None

    def visit_FunctionDef(self, node):
        self.generic_visit(node)
        self._strip_args(node)
        return node

    visit_AsyncFunctionDef = visit_FunctionDef

    def visit_ImportFrom(self, node):
        keep = [a for a in node.names if (node.module or "", a.name) not in self.allowed]
        if not keep:
            return None
        node.names = keep
        return node

    def visit_Import(self, node):
        keep = [a for a in node.names if (a.name, "") not in self.allowed and not any(m == a.name for m, _ in self.allowed if _ == "")]
        if not keep:
            return None
        node.names = keep
        return node

    def visit_ClassDef(self, node):
        if node.name in self.generated:
            return None
        self.generic_visit(node)
        if not node.body:
            node.body = [ast.Pass()]
        return node

    def visit_If(self, node):
        self.generic_visit(node)
        is_tc = (isinstance(node.test, ast.Name) and node.test.id == "TYPE_CHECKING")
        if is_tc and not node.body and not node.orelse:
            return None
        if not node.body:
            node.body = [ast.Pass()]
        return node


def erased_dump(src: str, allowed: Set[Tuple[str, str]], generated: Set[str]) -> str:
    tree = ast.parse(src)
    tree = Eraser(allowed, generated).visit(copy.deepcopy(tree))
    ast.fix_missing_locations(tree)
    # an `if TYPE_CHECKING:` whose body was erased completely may leave `pass`: normalise
    return ast.dump(tree, include_attributes=False)


def functions(tree: ast.AST) -> Dict[Tuple[Tuple[str, ...], str], Any]:
    out: Dict[Tuple[Tuple[str, ...], str], Any] = {}

    def visit(body, path):
        for n in body:
            if isinstance(n, (ast.FunctionDef, ast.AsyncFunctionDef)):
                out.setdefault((path, n.name), n)
                visit(n.body, path + ("<locals>",))
            elif isinstance(n, ast.ClassDef):
                visit(n.body, path + (n.name,))
            elif isinstance(n, (ast.If, ast.Try)):
                visit(n.body, path)
                visit(getattr(n, "orelse", []) or [], path)
                for h in getattr(n, "handlers", []) or []:
                    visit(h.body, path)

    visit(tree.body, ())  # type: ignore[attr-defined]
    return out


def positions(fn) -> Dict[str, Optional[ast.AST]]:
    a = fn.args
    d: Dict[str, Optional[ast.AST]] = {}
    for arg in a.posonlyargs + a.args + a.kwonlyargs:
        d[arg.arg] = arg.annotation
    if a.vararg:
        d["*" + a.vararg.arg] = a.vararg.annotation
    if a.kwarg:
        d["**" + a.kwarg.arg] = a.kwarg.annotation
    d["return"] = fn.returns
    return d


def ann_text(node: Optional[ast.AST]) -> Optional[str]:
    if node is None:
        return None
    txt = ast.unparse(node)
    return txt
