"""C09 — the trace store returns exactly what was added: deduplicated, filtered, bounded; batches are atomic.

Four exhaustive explorations against the real SQLiteStore on a real database file:
  H  histories   (E3) BFS over add(batch)/reopen/open through 1..3 connections; in EVERY state EVERY query of the
                 alphabet is evaluated through every open connection and compared with a Counter model.
  S  schedules   (E2) while connection A runs add(batch), at EVERY VM step a second connection performs one of
                 {filter, list_modules, add(batch')} (thorough: every pair of steps).
  K  crash points     a forked writer SIGKILLs itself at EVERY VM step of the insert (thorough: additionally at every
                 mutating syscall on the database/journal via strace fault injection); an independent sqlite3
                 connection then inspects the file.
  F  faults      progress-handler abort at EVERY step; unserialisable traces at every batch position.
"""
from __future__ import annotations

import collections
import itertools
import os
import signal
import sqlite3
import subprocess
import sys
import types
from pathlib import Path
from typing import Any, Dict, List, Optional, Sequence, Tuple

from mcheck.core.par import run_shards
from mcheck.core.runner import VERIF, Ctx, HarnessError, Result, Violation

ID = "C09"
RULE = (
    "H: BFS over histories of add(batch)/reopen/open-connection (11 batches incl. duplicates, NULL-vs-NoneType returns, "
    "unserialisable traces at every position, names colliding under LIKE) to depth 3 (thorough 4), 1..3 connections; in "
    "every state every filter(m,p,n) for m in 4 modules, p in every prefix of every qualname + '', '_', '%', None, n in "
    "{0,1,2,1000} and list_modules through every connection vs a Counter model. S: second connection acting at every VM "
    "step of a batch insert. K: SIGKILL at every VM step (thorough: every mutating syscall). F: abort at every step. "
    "non-trivial = query whose answer distinguishes SQL LIKE from a case-sensitive prefix test, states with duplicates, "
    "crash points before and after the commit"
)
EXPLANATION = "explicit-state search and choice-point exploration of the real SQLiteStore with a reference model"
ASSUMPTIONS = [
    "SQLite's own locking/journalling is trusted; 2..3 connections are explored exhaustively, more writers by the commutation of whole transactions",
    "process kill (not power loss) is the crash model",
]

TABLE = "monkeytype_call_traces"
MODULES = ["m", "M", "m2"]
QUALNAMES = ["my_func", "myXfunc", "MY_FUNC", "Foo.bar", "foo", "a%b", "aXb", "é", "É", "a*b", "a?b", "my[_X]func"]
LIMITS = [0, 1, 2, 1000]


_FUNCS: Dict[Tuple[str, str], Any] = {}


def mkfunc(module: str, qualname: str):
    """One function object per (module, qualname) for the life of the process, as in a real program (state that the code
    under test keys by function object is therefore carried from batch to batch)."""
    if (module, qualname) in _FUNCS:
        return _FUNCS[(module, qualname)]
    f = _FUNCS[(module, qualname)] = types.FunctionType((lambda: 0).__code__, {})
    f.__module__ = module
    f.__qualname__ = qualname
    return f


class _RaisesKeyError(type):
    def __getattr__(cls, name):
        raise KeyError(name)   # a registry-style metaclass: unknown attribute names are unknown keys


class Unserialisable2(metaclass=_RaisesKeyError):
    """A class whose encoding fails with an error that is neither AttributeError nor TypeError."""


class Unserialisable:
    """A 'type' whose encoding fails (no __qualname__)."""

    __module__ = "m"


def mktrace(spec: Tuple[str, str, str]):
    """spec = (module, qualname, variant) ; variant: 'int' | 'none' (return absent) | 'nonetype' | 'bad'."""
    from monkeytype.tracing import CallTrace

    m, q, v = spec
    if v == "bad":
        return CallTrace(mkfunc(m, q), {"x": Unserialisable()}, int)  # type: ignore[dict-item]
    if v == "bad2":
        return CallTrace(mkfunc(m, q), {"x": Unserialisable2}, int)
    if v in ("yint", "ystr"):
        return CallTrace(mkfunc(m, q), {"x": int}, None, int if v == "yint" else str)
    if v == "bare":
        return CallTrace(mkfunc(m, q), {}, None, None)   # a parameterless function whose call ended with an exception
    ret = {"int": int, "none": None, "nonetype": type(None), "str": str}[v]
    return CallTrace(mkfunc(m, q), {"x": int}, ret)


def row_of(spec: Tuple[str, str, str]) -> Optional[Tuple[str, str, str, Optional[str], Optional[str]]]:
    """The reference row (independent of monkeytype.encoding) for a serialisable spec; None for 'bad'."""
    m, q, v = spec
    if v in ("bad", "bad2"):
        return None
    arg = '{"x": {"module": "builtins", "qualname": "int"}}'
    if v in ("yint", "ystr"):
        return (m, q, arg, None, '{"module": "builtins", "qualname": "%s"}' % ("int" if v == "yint" else "str"))
    if v == "bare":
        return (m, q, "{}", None, None)
    ret = {"int": '{"module": "builtins", "qualname": "int"}', "str": '{"module": "builtins", "qualname": "str"}', "none": None, "nonetype": '{"module": "builtins", "qualname": "NoneType"}'}[v]
    return (m, q, arg, ret, None)


BATCHES: List[List[Tuple[str, str, str]]] = [
    [("m", "my_func", "int")],
    [("m", "myXfunc", "int"), ("m", "MY_FUNC", "int")],
    [("m", "my_func", "int"), ("m", "my_func", "int")],
    [("m", "Foo.bar", "int"), ("m", "foo", "int")],
    [("m", "a%b", "int"), ("m", "aXb", "int")],
    [("M", "my_func", "int"), ("m2", "my_func", "int")],
    [("m", "my_func", "none"), ("m", "my_func", "nonetype")],
    [("m", "x", "bad"), ("m", "é", "int"), ("m", "É", "int")],
    [("m", "é", "int"), ("m", "x", "bad"), ("m", "É", "str")],
    [("m", "é", "int"), ("m", "É", "int"), ("m", "x", "bad")],
    [],
    [("m", "a*b", "int"), ("m", "a?b", "int"), ("m", "my[_X]func", "int")],
    [("m2", f"big{i:04d}", "int") for i in range(1200)],   # index 12: a batch larger than any plausible chunk size
    [("m", "gen", "yint"), ("m", "gen", "ystr"), ("m", "gen", "none")],   # index 13: rows that differ only in their yield type
    [("m", "x", "bad"), ("m", "x", "int"), ("m", "x", "str")],            # index 14: an unserialisable and two good traces of ONE function
    [("m", "x", "int")],                                                   # index 15: a good trace of the function whose trace failed before
    [("m", "noargs", "bare"), ("m2", "noargs", "bare")],                   # index 16: rows with no argument, no return and no yield type
    [("m", "é", "int"), ("m", "y", "bad2"), ("m", "É", "str")],           # index 17: a trace whose encoding raises KeyError in mid-batch
]


def as_batch(traces: List[Any], n: int) -> Any:
    """add() takes any iterable of traces: the n-th add of a history hands over a list, a one-shot iterator, a tuple or a
    generator in turn."""
    return (list, iter, tuple, lambda l: (t for t in l))[n % 4](traces)


BIG = 12


def prefixes() -> List[Optional[str]]:
    ps = {"", "_", "%", "my%", "f", "F", "a_b", "*", "?", "a?", "my[", "[", "my[_X]", "a[*?]b"}
    for q in QUALNAMES:
        for i in range(1, len(q) + 1):
            ps.add(q[:i])
    return [None] + sorted(ps)


def indep_rows(path: str, table: str = TABLE) -> collections.Counter:
    """Read the table through an independent sqlite3 connection (not the store)."""
    c = sqlite3.connect(path, timeout=5)
    try:
        rows = c.execute(f"select module, qualname, arg_types, return_type, yield_type from {table}").fetchall()
        ic = c.execute("PRAGMA integrity_check").fetchall()
    finally:
        c.close()
    if ic != [("ok",)]:
        raise AssertionError(f"integrity_check: {ic}")
    return collections.Counter(rows)


def check_queries(store, model: collections.Counter, res: Result, case: Dict[str, Any], where: str) -> None:
    """Every query of the alphabet against the model."""
    distinct = list(model)
    for m in MODULES + ["nomod"]:
        in_mod = [r for r in distinct if r[0] == m]
        for p in PREFIXES:
            D = [r for r in in_mod if p is None or r[1].startswith(p)]
            like = None
            for n in LIMITS:
                res.transitions += 1
                try:
                    got = store.filter(m, p, n)
                except Exception as e:  # noqa: BLE001
                    res.violate(Violation(ID, "exception", "filter", dict(case, q=[m, p, n]), f"{where}: filter({m!r},{p!r},{n}) raised {e!r}"))
                    continue
                rows = [(t.module, t.qualname, t.arg_types, t.return_type, t.yield_type) for t in got]
                bad = None
                if len(set(rows)) != len(rows):
                    bad = ("dedup", "duplicate-rows", f"duplicates in {rows}")
                elif any(r not in D for r in rows):
                    extra = [r[:2] for r in rows if r not in D]
                    wrongmod = any(r[0] != m for r in rows)
                    sig = "module-not-exact" if wrongmod else ("prefix-not-exact" if all(r in in_mod for r in rows) else "row-not-in-model")
                    bad = ("filter", sig, f"returned {extra} which are not rows of module {m!r} starting with {p!r}")
                elif len(rows) != min(n, len(D)):
                    bad = ("count", "wrong-count", f"returned {len(rows)} rows, expected min({n}, {len(D)})")
                if bad:
                    res.violate(Violation(ID, bad[0], bad[1], dict(case, q=[m, p, n]), f"{where}: filter({m!r},{p!r},{n}): {bad[2]}"))
                if n == 1000 and p is not None:
                    # does this query distinguish LIKE semantics from a prefix test? (coverage obligation)
                    import re

                    pat = "^" + "".join(".*" if ch == "%" else "." if ch == "_" else re.escape(ch) for ch in p)
                    if any(re.match(pat, r[1], re.I) for r in in_mod if r not in D):
                        res.oblige("H:query-distinguishing-LIKE-from-prefix", True)
                        res.nontrivial.add(("like", m, p))
    res.transitions += 1
    try:
        mods = store.list_modules()
    except Exception as e:  # noqa: BLE001
        res.violate(Violation(ID, "exception", "list_modules", case, f"{where}: list_modules raised {e!r}"))
        return
    if sorted(mods) != sorted({r[0] for r in distinct}):
        res.violate(Violation(ID, "list_modules", "wrong-module-set", case, f"{where}: list_modules() = {mods}, model has {sorted({r[0] for r in distinct})}"))


PREFIXES = prefixes()


# ------------------------------------------------------------------------------------------ H: histories


def apply_history(path: str, hist: Sequence[Tuple], res: Optional[Result] = None, case=None):
    """Replay a history on a fresh file. Events: ('add', conn, batch_index) | ('reopen', conn) | ('open',).
    Returns (stores, model)."""
    from monkeytype.db.sqlite import SQLiteStore

    if os.path.exists(path):
        os.unlink(path)
    for ext in ("-journal", "-wal", "-shm"):
        if os.path.exists(path + ext):
            os.unlink(path + ext)
    stores = [SQLiteStore.make_store(path)]
    model: collections.Counter = collections.Counter()
    for ev in hist:
        if ev[0] == "add":
            batch = BATCHES[ev[2]]
            stores[ev[1]].add(as_batch([mktrace(s) for s in batch], list(hist).index(ev) + ev[2]))
            for s in batch:
                r = row_of(s)
                if r is not None:
                    model[r] += 1
        elif ev[0] == "reopen":
            stores[ev[1]].conn.close()
            stores[ev[1]] = SQLiteStore.make_store(path)
        elif ev[0] == "open":
            stores.append(SQLiteStore.make_store(path))
        if res is not None:
            # every open connection is queried after every event (a connection's view must not lag behind commits made
            # through other connections): module listing + one unfiltered query per module
            want_mods = sorted({r[0] for r in model})
            for ci, st in enumerate(stores):
                res.transitions += 1
                try:
                    got_mods = sorted(st.list_modules())
                    if got_mods != want_mods:
                        res.violate(Violation(ID, "list_modules", "stale-view-on-other-connection", dict(case or {}, conn=ci), f"after {list(hist[: hist.index(ev) + 1])}: connection {ci} lists {got_mods}, committed rows have {want_mods}"))
                    for m in want_mods:
                        n_got = len(st.filter(m, None, 1000))
                        n_want = len({r for r in model if r[0] == m})
                        if n_got != n_want:
                            res.violate(Violation(ID, "count", "stale-view-on-other-connection", dict(case or {}, conn=ci), f"connection {ci} sees {n_got} rows of {m}, {n_want} are committed"))
                except Exception as e:  # noqa: BLE001
                    res.violate(Violation(ID, "exception", "probe", dict(case or {}, conn=ci), f"probe raised {e!r}"))
    return stores, model


def canon(model: collections.Counter, nconn: int) -> Tuple:
    return (tuple(sorted(((r, min(c, 2)) for r, c in model.items()), key=repr)), nconn)


def enabled(nconn: int) -> List[Tuple]:
    evs: List[Tuple] = []
    for c in range(nconn):
        for b in range(len(BATCHES)):
            if b != BIG:
                evs.append(("add", c, b))
    evs.append(("reopen", 0))
    if nconn < 3:
        evs.append(("open",))
    return evs


def explore_histories(ctx: Ctx, depth: int) -> Result:
    """Level-synchronous BFS; each level's frontier is expanded on worker processes (states rebuilt by replay)."""
    total = Result()
    seen = {canon(collections.Counter(), 1)}
    frontier: List[List[Tuple]] = [[]]
    level = 0
    # the initial state is queried too
    while frontier and level <= depth:
        items = [(h, level < depth) for h in frontier]

        def work(ctx: Ctx, chunk):
            res = Result()
            path = str(ctx.tmp / f"h_{os.getpid()}.sqlite3")
            out = []
            for hist, expand in chunk:
                case = {"part": "H", "history": [list(e) for e in hist]}
                try:
                    stores, model = apply_history(path, hist, res, case)
                except Exception as e:  # noqa: BLE001
                    res.violate(Violation(ID, "exception", "history", case, f"history raised {e!r}"))
                    continue
                res.evaluations += 1
                res.validated += 1
                # independent reading agrees with the model (durability / dedup-free raw content)
                raw = indep_rows(path)
                if raw != model:
                    res.violate(Violation(ID, "content", "table-differs-from-model", case, f"table {sorted(raw.items(), key=repr)[:4]} != model {sorted(model.items(), key=repr)[:4]}"))
                for ci, st in enumerate(stores):
                    check_queries(st, model, res, dict(case, conn=ci), f"history {hist} conn {ci}")
                if any(c > 1 for c in model.values()):
                    res.oblige("H:state-with-duplicates", True)
                if len(stores) > 1:
                    res.oblige("H:multi-connection-state", True)
                succ = []
                if expand:
                    for ev in enabled(len(stores)):
                        m2 = collections.Counter(model)
                        n2 = len(stores) + (1 if ev[0] == "open" else 0)
                        if ev[0] == "add":
                            for s in BATCHES[ev[2]]:
                                r = row_of(s)
                                if r is not None:
                                    m2[r] += 1
                        succ.append((ev, canon(m2, n2)))
                        # EVERY transition is executed on the real store (also those into states already seen through
                        # another history): the table must hold exactly the model's rows afterwards
                        res.transitions += 1
                        try:
                            st2, model2 = apply_history(path, list(hist) + [ev])
                            raw2 = indep_rows(path)
                            for st_ in st2:
                                st_.conn.close()
                            if raw2 != m2:
                                res.violate(Violation(ID, "content", "table-differs-from-model", {"part": "H", "history": [list(e) for e in list(hist) + [ev]]}, f"after {list(hist) + [ev]}: table {sorted(raw2.items(), key=repr)[:4]} != model {sorted(m2.items(), key=repr)[:4]}"))
                        except Exception as e:  # noqa: BLE001
                            res.violate(Violation(ID, "exception", "history", {"part": "H", "history": [list(e_) for e_ in list(hist) + [ev]]}, f"history {list(hist) + [ev]} raised {e!r}"))
                for st in stores:
                    st.conn.close()
                out.append((hist, succ))
            res.extra["succ"] = out
            return res

        chunks = [items[i:: ctx.workers * 2] for i in range(ctx.workers * 2)]
        chunks = [c for c in chunks if c]
        per = [work(ctx, c) for c in chunks] if ctx.workers <= 1 else _par(ctx, work, chunks)
        nxt: List[List[Tuple]] = []
        for r in per:
            succ = r.extra.pop("succ", [])
            total.merge(r)
            for hist, ss in succ:
                for ev, key in ss:
                    total.transitions += 1
                    if key not in seen:
                        seen.add(key)
                        nxt.append(list(hist) + [ev])
        total.states += len(frontier)
        if level == 1 and frontier:
            total.sample({"part": "H", "history": [list(e) for e in frontier[min(3, len(frontier) - 1)]]})
        frontier = nxt
        level += 1
    total.bounds["H_depth"] = depth
    total.bounds["H_states"] = len(seen)
    total.extra["H_queries_per_state_per_connection"] = (len(MODULES) + 1) * len(PREFIXES) * len(LIMITS) + 1
    return total


def _par(ctx: Ctx, fn, chunks):
    import multiprocessing as mp

    from mcheck.core import par

    mpc = mp.get_context("fork")
    with mpc.Pool(min(ctx.workers, len(chunks)), initializer=par._init, initargs=(fn, ctx)) as pool:
        outs = pool.map(par._call, chunks, chunksize=1)
    for o in outs:
        if isinstance(o, tuple) and o and o[0] == "ERR":
            raise HarnessError("worker crashed:\n" + o[1])
    return outs


# ------------------------------------------------------------------------------------------ X: tables, days, large batches

X_TABLE = "traces_x"
X_BATCHES = [0, 2, 5, 13]


def x_apply(path: str, hist: Sequence[Tuple], fake) -> Tuple[List[Any], List[collections.Counter]]:
    """Two stores on ONE file: store 0 on the default table (make_store), store 1 on a custom table (the public
    SQLiteStore(conn, table) constructor). Events: ('add', store, batch) | ('tick',) next calendar day | ('reopen', store)."""
    from monkeytype.db.sqlite import SQLiteStore, create_call_trace_table

    for ext in ("", "-journal", "-wal", "-shm"):
        if os.path.exists(path + ext):
            os.unlink(path + ext)

    def open_store(i: int):
        if i == 0:
            return SQLiteStore.make_store(path)
        conn = sqlite3.connect(path)
        create_call_trace_table(conn, X_TABLE)
        return SQLiteStore(conn, X_TABLE)

    fake.day = 0
    stores = [open_store(0), open_store(1)]
    models = [collections.Counter(), collections.Counter()]
    for ev in hist:
        if ev[0] == "add":
            stores[ev[1]].add([mktrace(s_) for s_ in BATCHES[ev[2]]])
            for s_ in BATCHES[ev[2]]:
                r = row_of(s_)
                if r is not None:
                    models[ev[1]][r] += 1
        elif ev[0] == "tick":
            fake.day += 1
        elif ev[0] == "reopen":
            stores[ev[1]].conn.close()
            stores[ev[1]] = open_store(ev[1])
    return stores, models


def explore_extras(ctx: Ctx) -> Result:
    """X1: BFS over add / next-day / reopen on two stores that share a file but not a table: each store answers every
    query from ITS table only, and de-duplication does not depend on the day a row was committed.
    X2: the 1200-row batch added whole (alone, after other batches, twice): every one of its rows is there."""
    import monkeytype.db.sqlite as sq
    from mcheck.props.c14 import FakeDatetimeModule

    depth = 3 if ctx.quick else 4
    evs = [("add", st, b) for st in (0, 1) for b in X_BATCHES] + [("tick",), ("reopen", 0), ("reopen", 1)]

    def key_of(hist) -> Tuple:
        ms = [collections.Counter(), collections.Counter()]
        day = 0
        days: List[set] = [set(), set()]
        for ev in hist:
            if ev[0] == "add":
                for s_ in BATCHES[ev[2]]:
                    r = row_of(s_)
                    if r is not None:
                        ms[ev[1]][(r, day)] += 1
            elif ev[0] == "tick":
                day += 1
        return (tuple(tuple(sorted(((r, min(c, 2)) for r, c in m.items()), key=repr)) for m in ms), day)

    seen = {key_of([])}
    frontier: List[List[Tuple]] = [[]]
    hists: List[List[Tuple]] = [[]]
    for _ in range(depth):
        nxt = []
        for h in frontier:
            for ev in evs:
                h2 = h + [ev]
                k = key_of(h2)
                if k not in seen:
                    seen.add(k)
                    nxt.append(h2)
        hists += nxt
        frontier = nxt

    def work(ctx: Ctx, chunk) -> Result:
        res = Result()
        fake = FakeDatetimeModule()
        old = sq.datetime
        sq.datetime = fake  # type: ignore[assignment]
        path = str(ctx.tmp / f"x_{os.getpid()}.sqlite3")
        try:
            for hist in chunk:
                case = {"part": "X", "history": [list(e) for e in hist]}
                res.states += 1
                res.evaluations += 1
                try:
                    stores, models = x_apply(path, hist, fake)
                except Exception as e:  # noqa: BLE001
                    res.violate(Violation(ID, "exception", "history", case, f"two-table history {hist} raised {e!r}"))
                    continue
                res.validated += 1
                for i, (st, model) in enumerate(zip(stores, models)):
                    raw = indep_rows(path, TABLE if i == 0 else X_TABLE)
                    if raw != model:
                        res.violate(Violation(ID, "content", "table-differs-from-model", dict(case, conn=i), f"table of store {i}: {sorted(raw.items(), key=repr)[:4]} != model {sorted(model.items(), key=repr)[:4]}"))
                    check_queries(st, model, res, dict(case, conn=i), f"two-table history {hist} store {i} ({'default' if i == 0 else 'custom'} table)")
                if any(e[0] == "tick" for e in hist) and any(c > 1 for m in models for c in m.values()):
                    res.oblige("X:same-row-committed-on-different-days", True)
                if models[0] and models[1] and {r[0] for r in models[0]} != {r[0] for r in models[1]}:
                    res.oblige("X:tables-with-different-modules", True)
                for st in stores:
                    st.conn.close()
            if any(e[0] == "add" for h in chunk for e in h) and fake.calls == 0:
                raise HarnessError("clock seam not consulted by SQLiteStore.add (seam lost)")
        finally:
            sq.datetime = old  # type: ignore[assignment]
        return res

    chunks = [hists[i:: ctx.workers * 2] for i in range(ctx.workers * 2)]
    total = Result()
    for r in (_par(ctx, work, [c for c in chunks if c]) if ctx.workers > 1 else [work(ctx, c) for c in chunks if c]):
        total.merge(r)
    total.bounds["X_depth"] = depth
    total.bounds["X_states"] = len(hists)
    # X2: large batch, whole
    from monkeytype.db.sqlite import SQLiteStore

    path = str(ctx.tmp / "x_big.sqlite3")
    want = {row_of(s_) for s_ in BATCHES[BIG]}
    for pre in ([], [0], [5, 13], [BIG]):
        for ext in ("", "-journal"):
            if os.path.exists(path + ext):
                os.unlink(path + ext)
        st = SQLiteStore.make_store(path)
        for b in pre:
            st.add([mktrace(s_) for s_ in BATCHES[b]])
        st.add([mktrace(s_) for s_ in BATCHES[BIG]])
        total.states += 1
        total.evaluations += 1
        total.validated += 1
        total.transitions += 3
        case = {"part": "X", "history": [["add", 0, b] for b in pre + [BIG]], "big": True}
        got = {(t.module, t.qualname, t.arg_types, t.return_type, t.yield_type) for t in st.filter("m2", "big", 5000)}
        raw = indep_rows(path)
        n_raw = sum(c for r, c in raw.items() if r[1].startswith("big"))
        n_exp = len(BATCHES[BIG]) * (2 if BIG in pre else 1)
        if got != want or n_raw != n_exp:
            missing = sorted(r[1] for r in want - got)
            total.violate(Violation(ID, "content", "large-batch-incomplete", case, f"1200-row batch after {pre}: filter returns {len(got)} of 1200 distinct rows (missing {missing[:5]}), table holds {n_raw} of {n_exp} rows"))
        if len(st.filter("m2", "big", 700)) != 700:
            total.violate(Violation(ID, "count", "wrong-count", case, "filter('m2','big',700) on 1200 distinct rows did not return 700"))
        st.conn.close()
    total.oblige("X:large-batch-whole", True)
    # X3: a database file that ALREADY EXISTS, written by the released version (table and index created with the DDL of
    # the pinned commit, rows inserted by column name): opened, added to and queried through the store
    RELEASED_DDL = [
        f"CREATE TABLE IF NOT EXISTS {TABLE} (created_at TEXT, module TEXT, qualname TEXT, arg_types TEXT, return_type TEXT, yield_type TEXT);",
        f"CREATE INDEX IF NOT EXISTS {TABLE}_module ON {TABLE} (module);",
    ]
    for pre_b, new_bs in ((0, [5]), (5, [0, 13]), (13, [13]), (0, [])):
        path3 = str(ctx.tmp / f"x_released_{pre_b}_{len(new_bs)}.sqlite3")
        for ext in ("", "-journal"):
            if os.path.exists(path3 + ext):
                os.unlink(path3 + ext)
        c = sqlite3.connect(path3)
        for q in RELEASED_DDL:
            c.execute(q)
        old_rows = [r for r in (row_of(s_) for s_ in BATCHES[pre_b]) if r is not None]
        with c:
            c.executemany(f"INSERT INTO {TABLE} (created_at, module, qualname, arg_types, return_type, yield_type) VALUES ('2020-01-02 03:04:05.000006', ?, ?, ?, ?, ?)", old_rows)
        c.close()
        case = {"part": "X", "history": [["released-file", 0, pre_b]] + [["add", 0, b] for b in new_bs], "released": True}
        total.states += 1
        total.evaluations += 1
        total.validated += 1
        total.transitions += 1 + len(new_bs)
        try:
            st = SQLiteStore.make_store(path3)
            model3 = collections.Counter(old_rows)
            for b in new_bs:
                st.add([mktrace(s_) for s_ in BATCHES[b]])
                model3 += collections.Counter(r for r in (row_of(s_) for s_ in BATCHES[b]) if r is not None)
            st2 = SQLiteStore.make_store(path3)   # and once more through a fresh connection
            raw3 = indep_rows(path3)
            if raw3 != model3:
                total.violate(Violation(ID, "content", "table-differs-from-model", case, f"database file of the released layout holding batch {pre_b}, then add {new_bs}: table {sorted(raw3.items(), key=repr)[:3]} != model {sorted(model3.items(), key=repr)[:3]}"))
            for si, s3 in enumerate((st, st2)):
                check_queries(s3, model3, total, dict(case, conn=si), f"released-layout file with batch {pre_b}, then add {new_bs}, connection {si}")
        except Exception as e:  # noqa: BLE001
            total.violate(Violation(ID, "exception", "released-layout-file", case, f"released-layout file with batch {pre_b}, then add {new_bs}: raised {e!r}"))
    total.oblige("X:file-of-the-released-layout", True)
    # X4: the shipped configuration's store for database paths with characters that mean something in a URI ('#', '?', '%'):
    # two paths that differ only behind such a character are two databases, each in the file of that very name
    from monkeytype.config import DefaultConfig

    old_env = os.environ.get("MT_DB_PATH")
    try:
        for ch in ("#", "?", "%41", " "):
            pa, pb = str(ctx.tmp / f"x_traces{ch}1.sqlite3"), str(ctx.tmp / f"x_traces{ch}2.sqlite3")
            for p_ in (pa, pb):
                if os.path.exists(p_):
                    os.unlink(p_)
            case = {"part": "X", "history": [["add", 0, 0]], "odd_path": ch}
            total.states += 1
            total.evaluations += 1
            total.validated += 1
            total.transitions += 3
            try:
                os.environ["MT_DB_PATH"] = pa
                sa = DefaultConfig().trace_store()
                sa.add([mktrace(s_) for s_ in BATCHES[0]])
                os.environ["MT_DB_PATH"] = pb
                sb = DefaultConfig().trace_store()
                listed = sb.list_modules()
                got_b = sb.filter("m", None, 100)
                model_a = collections.Counter(r for r in (row_of(s_) for s_ in BATCHES[0]) if r is not None)
                if listed or got_b:
                    total.violate(Violation(ID, "content", "databases-with-similar-paths-share-rows", case, f"MT_DB_PATH={os.path.basename(pb)!r} was never written to, yet lists {listed} and returns {len(got_b)} rows (added to {os.path.basename(pa)!r})"))
                if not os.path.exists(pa) or indep_rows(pa) != model_a:
                    total.violate(Violation(ID, "content", "database-not-in-the-named-file", case, f"rows added with MT_DB_PATH={os.path.basename(pa)!r}: the file of that name {'does not exist' if not os.path.exists(pa) else 'holds other rows'}"))
                check_queries(sa, model_a, total, dict(case, conn=0), f"DefaultConfig store at a path containing {ch!r}")
            except Exception as e:  # noqa: BLE001
                total.violate(Violation(ID, "exception", "odd-database-path", case, f"database path containing {ch!r}: raised {e!r}"))
        total.oblige("X:odd-database-paths", True)
    finally:
        if old_env is None:
            os.environ.pop("MT_DB_PATH", None)
        else:
            os.environ["MT_DB_PATH"] = old_env
    return total


# ------------------------------------------------------------------------------------------ S: schedules


B_OPS = ["filter", "list_modules", "add"]


def run_schedule(path: str, pre: List[int], a_batch: int, b_events: List[Tuple[int, str]], b_batch: int, res: Result, case: Dict[str, Any]) -> int:
    """A adds BATCHES[a_batch]; at each (step, op) in b_events connection B acts. Returns the number of VM steps."""
    from monkeytype.db.sqlite import SQLiteStore

    stores, model = apply_history(path, [("add", 0, b) for b in pre])
    A = stores[0]
    B = SQLiteStore(sqlite3.connect(path, timeout=0))
    pre_model = collections.Counter(model)
    a_rows = [r for r in (row_of(s) for s in BATCHES[a_batch]) if r is not None]
    b_rows = [r for r in (row_of(s) for s in BATCHES[b_batch]) if r is not None]
    post_a = pre_model + collections.Counter(a_rows)
    step = [0]
    b_committed = [0]
    events = dict(b_events)
    problems: List[Tuple[str, str, str]] = []

    def handler() -> int:
        step[0] += 1
        op = events.get(step[0])
        if op is None:
            return 0
        try:
            if op == "filter":
                got = collections.Counter((t.module, t.qualname, t.arg_types, t.return_type, t.yield_type) for t in B.filter("m", None, 1000))
                cands = []
                for base in (pre_model, post_a):
                    full = base + collections.Counter(b_rows * b_committed[0])
                    cands.append(collections.Counter({r: 1 for r in full if r[0] == "m"}))
                if got not in cands:
                    problems.append(("isolation", "reader-sees-partial-batch", f"reader at step {step[0]} saw {sorted(got, key=repr)} which is neither the state before nor after the batch"))
            elif op == "list_modules":
                got_m = sorted(B.list_modules())
                cands_m = []
                for base in (pre_model, post_a):
                    full = base + collections.Counter(b_rows * b_committed[0])
                    cands_m.append(sorted({r[0] for r in full}))
                if got_m not in cands_m:
                    problems.append(("isolation", "reader-sees-partial-batch", f"list_modules at step {step[0]} = {got_m}"))
            elif op == "add":
                B.add([mktrace(s) for s in BATCHES[b_batch]])
                b_committed[0] += 1
        except sqlite3.OperationalError as e:
            if "locked" not in str(e) and "busy" not in str(e):
                problems.append(("exception", "second-connection", f"B.{op} at step {step[0]} raised {e!r}"))
        except Exception as e:  # noqa: BLE001
            problems.append(("exception", "second-connection", f"B.{op} at step {step[0]} raised {e!r}"))
        return 0

    A.conn.set_progress_handler(handler, 1)
    a_ok = True
    try:
        A.add([mktrace(s) for s in BATCHES[a_batch]])
    except sqlite3.OperationalError as e:
        a_ok = False
        if "locked" not in str(e) and "busy" not in str(e):
            problems.append(("exception", "writer", f"A.add raised {e!r}"))
    finally:
        A.conn.set_progress_handler(None, 1)
    bpart = collections.Counter(b_rows * b_committed[0])
    expect = pre_model + collections.Counter(a_rows) + bpart
    try:
        raw = indep_rows(path)
        # a writer that raised may have committed all of its batch or none of it (all-or-none is what is promised)
        if raw != expect and (a_ok or raw != pre_model + bpart):
            problems.append(("atomicity", "final-state-differs", f"after schedule {b_events}: table {sorted(raw.items(), key=repr)} != expected {sorted(expect.items(), key=repr)} (a_ok={a_ok}, b_committed={b_committed[0]})"))
    except AssertionError as e:
        problems.append(("corruption", "integrity", str(e)))
    for kind, sig, msg in problems:
        res.violate(Violation(ID, kind, sig, case, msg))
    if not a_ok:
        res.oblige("S:writer-failed-cleanly-under-contention", True)
    if b_committed[0]:
        res.oblige("S:second-writer-committed-inside", True)
    res.outcomes.add(("S", a_ok, b_committed[0], tuple(sorted(expect.items(), key=repr))))
    A.conn.close()
    B.conn.close()
    return step[0]


def explore_schedules(ctx: Ctx, pairs: bool) -> Result:
    combos = [(pre, a, bb) for pre in ([], [0], [5]) for a in (1, 2, 7, 6) for bb in (0, 3)]

    def work(ctx: Ctx, combo) -> Result:
        res = Result()
        pre, a, bb = combo
        path = str(ctx.tmp / f"s_{os.getpid()}.sqlite3")
        n = run_schedule(path, pre, a, [], bb, res, {"part": "S", "pre": pre, "a": a, "b": bb, "events": []})
        res.bounds[f"S_steps[{a}]"] = n
        scheds: List[List[Tuple[int, str]]] = [[(s, op)] for s in range(1, n + 1) for op in B_OPS]
        if pairs:
            scheds += [[(s1, o1), (s2, o2)] for s1 in range(1, n + 1, 3) for s2 in range(s1 + 1, n + 1, 3) for o1 in B_OPS for o2 in B_OPS]
        for ev in scheds:
            res.states += 1
            res.evaluations += 1
            res.validated += 1
            res.transitions += len(ev)
            case = {"part": "S", "pre": pre, "a": a, "b": bb, "events": [list(e) for e in ev]}
            n2 = run_schedule(path, pre, a, ev, bb, res, case)
        res.sample({"part": "S", "pre_batches": pre, "writer_batch": a, "vm_steps": n, "schedules": len(scheds)})
        return res

    res = run_shards(ctx, work, combos)
    res.bounds["S_foreign_ops_per_transaction"] = 2 if pairs else 1
    return res


# ------------------------------------------------------------------------------------------ P: two processes


def run_proc_schedule(path: str, pre: List[int], a_batch: int, step_n: int, op: str, b_batch: int, res: Result, case: Dict[str, Any]) -> bool:
    """The writer is a separate PROCESS (forked, its own SQLiteStore.make_store connection, real file locks between
    processes), paused by the explorer at VM step `step_n` of its batch insert; while it is paused this process performs
    `op` on its own connection (timeout 0), then the writer is released. Returns whether the pause point was reached."""
    from monkeytype.db.sqlite import SQLiteStore

    stores, model = apply_history(path, [("add", 0, b) for b in pre])
    stores[0].conn.close()
    pre_model = collections.Counter(model)
    a_rows = [r for r in (row_of(s_) for s_ in BATCHES[a_batch]) if r is not None]
    b_rows = [r for r in (row_of(s_) for s_ in BATCHES[b_batch]) if r is not None]
    post_a = pre_model + collections.Counter(a_rows)
    r1, w1 = os.pipe()
    r2, w2 = os.pipe()
    pid = os.fork()
    if pid == 0:
        code = 7
        try:
            os.close(r1)
            os.close(w2)
            st = SQLiteStore.make_store(path)
            n = [0]

            def h() -> int:
                n[0] += 1
                if n[0] == step_n:
                    os.write(w1, b"p")
                    os.read(r2, 1)
                return 0

            st.conn.set_progress_handler(h, 1)
            try:
                st.add([mktrace(s_) for s_ in BATCHES[a_batch]])
                code = 0
            except sqlite3.OperationalError as e:
                code = 5 if ("locked" in str(e) or "busy" in str(e)) else 6
            except Exception:  # noqa: BLE001
                code = 6
        finally:
            os._exit(code)
    os.close(w1)
    os.close(r2)
    reached = os.read(r1, 1) == b"p"
    problems: List[Tuple[str, str, str]] = []
    b_committed = 0
    B = SQLiteStore(sqlite3.connect(path, timeout=0))
    try:
        if op == "filter":
            got = collections.Counter((t.module, t.qualname, t.arg_types, t.return_type, t.yield_type) for t in B.filter("m", None, 1000))
            cands = [collections.Counter({r: 1 for r in base if r[0] == "m"}) for base in (pre_model, post_a)]
            if got not in cands:
                problems.append(("isolation", "reader-sees-partial-batch", f"a reader in another process, writer paused at step {step_n}, saw {sorted(got, key=repr)}: neither the state before nor after the batch"))
        elif op == "list_modules":
            got_m = sorted(B.list_modules())
            if got_m not in [sorted({r[0] for r in base}) for base in (pre_model, post_a)]:
                problems.append(("isolation", "reader-sees-partial-batch", f"list_modules in another process, writer paused at step {step_n}: {got_m}"))
        elif op == "add":
            B.add([mktrace(s_) for s_ in BATCHES[b_batch]])
            b_committed = 1
    except sqlite3.OperationalError as e:
        if "locked" not in str(e) and "busy" not in str(e):
            problems.append(("exception", "second-process", f"{op} while the writer process is paused at step {step_n} raised {e!r}"))
    except Exception as e:  # noqa: BLE001
        problems.append(("exception", "second-process", f"{op} while the writer process is paused at step {step_n} raised {e!r}"))
    finally:
        B.conn.close()
    try:
        os.write(w2, b"g")
    except OSError:
        pass
    os.close(w2)
    os.close(r1)
    _, status = os.waitpid(pid, 0)
    code = os.WEXITSTATUS(status) if os.WIFEXITED(status) else -1
    if code not in (0, 5):
        problems.append(("exception", "writer-process", f"writer process ended with status {status} (paused at step {step_n}, other process did {op})"))
    a_ok = code == 0
    bpart = collections.Counter(b_rows * b_committed)
    expect = pre_model + (collections.Counter(a_rows) if a_ok else collections.Counter()) + bpart
    try:
        raw = indep_rows(path)
        if raw != expect and (a_ok or raw != pre_model + collections.Counter(a_rows) + bpart):
            problems.append(("atomicity", "final-state-differs", f"writer process paused at step {step_n}, other process did {op}: table {sorted(raw.items(), key=repr)[:6]} != expected {sorted(expect.items(), key=repr)[:6]} (writer ok={a_ok}, other committed={b_committed})"))
    except AssertionError as e:
        problems.append(("corruption", "integrity", str(e)))
    for kind, sig, msg in problems:
        res.violate(Violation(ID, kind, sig, case, msg))
    if not a_ok:
        res.oblige("P:writer-process-failed-cleanly-under-contention", True)
    if b_committed and reached:
        res.oblige("P:other-process-committed-while-writer-paused", True)
    res.outcomes.add(("P", a_ok, b_committed, reached))
    return reached


def explore_proc_schedules(ctx: Ctx) -> Result:
    combos = [(pre, a, bb) for pre in ([], [0]) for a in ((1, 6) if ctx.quick else (1, 2, 7, 6)) for bb in (0, 3)]

    def work(ctx: Ctx, combo) -> Result:
        res = Result()
        pre, a, bb = combo
        path = str(ctx.tmp / f"p_{os.getpid()}.sqlite3")
        n = 0
        while True:
            n += 1
            reached = True
            for op in B_OPS:
                res.states += 1
                res.evaluations += 1
                res.validated += 1
                res.transitions += 2
                case = {"part": "P", "pre": pre, "a": a, "b": bb, "step": n, "op": op}
                reached = run_proc_schedule(path, pre, a, n, op, bb, res, case)
            if not reached or n > 400:
                break
        res.bounds[f"P_steps[{a}]"] = n - 1
        if n - 1 < 10:
            raise HarnessError(f"writer process reached only {n - 1} pause points (seam lost?)")
        return res

    return run_shards(ctx, work, combos)


# ------------------------------------------------------------------------------------------ K: crash points


def crash_child(path: str, batch: int, kill_at: int) -> None:
    from monkeytype.db.sqlite import SQLiteStore

    st = SQLiteStore.make_store(path)   # the way every Config opens its store (whatever make_store sets up is in force)
    n = [0]

    def h() -> int:
        n[0] += 1
        if n[0] == kill_at:
            os.kill(os.getpid(), signal.SIGKILL)
        return 0

    st.conn.set_progress_handler(h, 1)
    st.add([mktrace(s) for s in BATCHES[batch]])
    st.conn.set_progress_handler(None, 1)
    os._exit(0 if n[0] < kill_at else 3)


def after_crash_checks(path: str, pre_model, batch_rows, res: Result, case, where: str) -> str:
    from monkeytype.db.sqlite import SQLiteStore

    try:
        raw = indep_rows(path)
    except AssertionError as e:
        res.violate(Violation(ID, "corruption", "integrity", case, f"{where}: {e}"))
        return "corrupt"
    post = pre_model + collections.Counter(batch_rows)
    if raw == pre_model:
        outcome = "pre"
    elif raw == post:
        outcome = "post"
    else:
        res.violate(Violation(ID, "atomicity", "partial-batch-after-crash", case, f"{where}: table has {sorted(raw.items(), key=repr)}, neither pre-state nor pre-state+batch"))
        return "partial"
    # the store still works afterwards
    st = SQLiteStore.make_store(path)
    try:
        st.add([mktrace(("m2", "after", "int"))])
        got = st.filter("m2", "after", 10)
        if len(got) != 1:
            res.violate(Violation(ID, "recovery", "store-unusable-after-crash", case, f"{where}: add/filter after crash returned {len(got)} rows"))
    except Exception as e:  # noqa: BLE001
        res.violate(Violation(ID, "recovery", "store-unusable-after-crash", case, f"{where}: store raised {e!r} after crash"))
    finally:
        st.conn.close()
    return outcome


def explore_crashes(ctx: Ctx, syscalls: bool) -> Result:
    combos = [(pre, b) for pre in ([], [0, 5]) for b in (1, 2, 7, 6, 9)]

    def work(ctx: Ctx, combo) -> Result:
        res = Result()
        pre, b = combo
        path = str(ctx.tmp / f"k_{os.getpid()}.sqlite3")
        batch_rows = [r for r in (row_of(s) for s in BATCHES[b]) if r is not None]
        stores, pre_model = apply_history(path, [("add", 0, x) for x in pre])
        stores[0].conn.close()
        outcomes = collections.Counter()
        kill_at = 0
        while True:
            kill_at += 1
            stores, pre_model = apply_history(path, [("add", 0, x) for x in pre])
            stores[0].conn.close()
            pid = os.fork()
            if pid == 0:
                try:
                    crash_child(path, b, kill_at)
                finally:
                    os._exit(4)
            _, status = os.waitpid(pid, 0)
            killed = os.WIFSIGNALED(status)
            res.states += 1
            res.evaluations += 1
            res.validated += 1
            res.transitions += 1
            case = {"part": "K", "pre": pre, "batch": b, "kill_at": kill_at}
            if not killed and os.WEXITSTATUS(status) != 0:
                raise HarnessError(f"crash child failed with status {status} at kill_at={kill_at}")
            o = after_crash_checks(path, pre_model, batch_rows, res, case, f"SIGKILL at VM step {kill_at}")
            if not killed and o != "post":
                res.violate(Violation(ID, "durability", "committed-batch-lost", case, f"writer finished normally but table is in state {o}"))
            outcomes[("killed:" if killed else "finished:") + o] += 1
            if not killed:
                break
            if kill_at > 2000:
                res.caps.append("K: more than 2000 VM steps")
                break
        nsteps = kill_at - 1
        res.bounds[f"K_steps[{b}]"] = nsteps
        if nsteps < 10:
            raise HarnessError(f"only {nsteps} VM steps seen by the crash child (seam lost?)")
        outcomes["pre"] = outcomes["killed:pre"]
        outcomes["post"] = outcomes["killed:post"]
        if outcomes["pre"]:
            res.oblige("K:crash-before-commit", True)
        if outcomes["post"]:
            res.oblige("K:crash-after-commit", True)
        res.outcomes.add(("K", b, tuple(sorted(outcomes.items(), key=repr))))
        res.sample({"part": "K", "pre_batches": pre, "batch": b, "vm_steps": nsteps, "outcomes": dict(outcomes)})
        if syscalls or (pre, b) == ([0, 5], 1):
            # quick tier: one batch (two rows of a module that already has rows: a table page and an index page change)
            syscall_crashes(ctx, res, path, pre, b, batch_rows)
        return res

    return run_shards(ctx, work, combos)


def syscall_crashes(ctx: Ctx, res: Result, path: str, pre: List[int], b: int, batch_rows) -> None:
    """Kill the writer at its n-th mutating syscall on the database / journal (strace fault injection)."""
    helper = str(VERIF / "mcheck" / "props" / "c09_writer.py")
    calls = "write,pwrite64,fsync,fdatasync,unlink,ftruncate,openat"
    n = 0
    outcomes = collections.Counter()
    while True:
        n += 1
        stores, pre_model = apply_history(path, [("add", 0, x) for x in pre])
        stores[0].conn.close()
        cmd = [
            "strace", "-f", "-o", "/dev/null", "-P", path, "-P", path + "-journal",
            "-e", f"inject={calls}:signal=KILL:when={n}",
            sys.executable, "-W", "ignore", helper, path, str(b),
        ]
        r = subprocess.run(cmd, capture_output=True, text=True, env=dict(os.environ))
        res.states += 1
        res.evaluations += 1
        res.validated += 1
        res.transitions += 1
        case = {"part": "K-syscall", "pre": pre, "batch": b, "kill_at_syscall": n}
        killed = r.returncode != 0
        o = after_crash_checks(path, pre_model, batch_rows, res, case, f"SIGKILL at mutating syscall #{n}")
        outcomes[o] += 1
        if not killed:
            if o != "post":
                res.violate(Violation(ID, "durability", "committed-batch-lost", case, f"writer exited 0 but table is in state {o}: {r.stderr[-300:]}"))
            break
        if n > 200:
            res.caps.append("K-syscall: more than 200 syscalls")
            break
    res.bounds[f"K_syscalls[{b}]"] = n - 1
    if n - 1 < 3:
        raise HarnessError(f"strace injection saw only {n - 1} mutating syscalls (seam lost?) stderr={r.stderr[-300:]}")
    res.outcomes.add(("Ksys", b, tuple(sorted(outcomes.items(), key=repr))))


# ------------------------------------------------------------------------------------------ F: faults


def explore_read_faults(ctx: Ctx) -> Result:
    """A query interrupted at EVERY VM step (progress handler of the reading connection returns 1): filter / list_modules
    either raise or give the complete right answer - never a short or empty one."""
    from monkeytype.db.sqlite import SQLiteStore

    res = Result()
    path = str(ctx.tmp / "rf.sqlite3")
    stores, model = apply_history(path, [("add", 0, b) for b in (0, 1, 5, 13)])
    stores[0].conn.close()
    want_rows = {r for r in model if r[0] == "m"}
    want_mods = sorted({r[0] for r in model})
    for opname in ("filter", "list_modules"):
        n = 0
        while True:
            n += 1
            st = SQLiteStore.make_store(path)
            cnt = [0]

            def h() -> int:
                cnt[0] += 1
                return 1 if cnt[0] == n else 0

            st.conn.set_progress_handler(h, 1)
            res.states += 1
            res.transitions += 1
            res.evaluations += 1
            res.validated += 1
            case = {"part": "RF", "op": opname, "abort_at": n}
            try:
                if opname == "filter":
                    got = {(t.module, t.qualname, t.arg_types, t.return_type, t.yield_type) for t in st.filter("m", None, 1000)}
                    if got != want_rows:
                        res.violate(Violation(ID, "count", "interrupted-query-answered-short", case, f"filter('m') interrupted at VM step {n} returned {len(got)} of {len(want_rows)} rows instead of raising"))
                else:
                    got_m = sorted(st.list_modules())
                    if got_m != want_mods:
                        res.violate(Violation(ID, "list_modules", "interrupted-query-answered-short", case, f"list_modules interrupted at VM step {n} returned {got_m} instead of raising (model {want_mods})"))
            except sqlite3.OperationalError:
                res.oblige("RF:interrupted-query-raised", True)
            except Exception as e:  # noqa: BLE001
                res.violate(Violation(ID, "exception", "interrupted-query", case, f"{opname} interrupted at step {n} raised {e!r}"))
            finally:
                st.conn.set_progress_handler(None, 1)
                st.conn.close()
            if cnt[0] < n or n > 3000:
                break
        res.bounds[f"RF_steps[{opname}]"] = n - 1
    return res


def explore_faults(ctx: Ctx) -> Result:
    combos = [(pre, b) for pre in ([], [0, 5]) for b in (1, 2, 7, 8, 9, 6)] + [([], BIG)]

    def work(ctx: Ctx, combo) -> Result:
        from monkeytype.db.sqlite import SQLiteStore

        res = Result()
        pre, b = combo
        stride = 1 if b != BIG else 487   # the 1200-row batch (~16 000 VM steps) is aborted at every 487th step
        path = str(ctx.tmp / f"f_{os.getpid()}.sqlite3")
        batch_rows = [r for r in (row_of(s) for s in BATCHES[b]) if r is not None]
        k = 1 - stride
        while True:
            k += stride
            stores, pre_model = apply_history(path, [("add", 0, x) for x in pre])
            st = stores[0]
            cnt = [0]

            def h() -> int:
                cnt[0] += 1
                return 1 if cnt[0] == k else 0

            st.conn.set_progress_handler(h, 1)
            raised = None
            try:
                st.add([mktrace(s) for s in BATCHES[b]])
            except Exception as e:  # noqa: BLE001
                raised = e
            st.conn.set_progress_handler(None, 1)
            res.states += 1
            res.evaluations += 1
            res.validated += 1
            res.transitions += 1
            case = {"part": "F", "pre": pre, "batch": b, "abort_at": k}
            raw = indep_rows(path)
            post = pre_model + collections.Counter(batch_rows)
            if raised is not None:
                # an interrupted add must leave all of the batch or none of it (the very last VM step runs after
                # SQLite has committed, so "interrupted" can be reported for a batch that is already durable)
                if raw == post:
                    res.oblige("F:interrupt-after-commit-point", True)
                elif raw != pre_model:
                    res.violate(Violation(ID, "atomicity", "failed-add-changed-state", case, f"add aborted at step {k} ({raised!r}) but table changed: {sorted(raw.items(), key=repr)}"))
                if raw == pre_model:
                    res.oblige("F:abort-rolled-back", True)
            else:
                if raw != post:
                    res.violate(Violation(ID, "atomicity", "add-returned-but-batch-missing", case, f"add returned normally (abort at {k}) but table {sorted(raw.items(), key=repr)} != pre+batch"))
            # still usable on the same connection, and the follow-up operations do not resurrect the aborted batch
            try:
                st.filter("m", None, 10)
                st.list_modules()
                st.add([mktrace(("m2", "after", "int"))])
                if len(st.filter("m2", "after", 5)) != 1:
                    res.violate(Violation(ID, "recovery", "store-unusable-after-abort", case, "add/filter after abort failed"))
                raw2 = indep_rows(path)
                want2 = raw + collections.Counter([row_of(("m2", "after", "int"))])
                if raw2 != want2:
                    res.violate(Violation(ID, "atomicity", "aborted-batch-committed-later", case, f"after an add aborted at step {k} the next operations on the same connection changed the table to {sorted(raw2.items(), key=repr)}, expected {sorted(want2.items(), key=repr)}"))
            except Exception as e:  # noqa: BLE001
                res.violate(Violation(ID, "recovery", "store-unusable-after-abort", case, f"store raised {e!r} after abort"))
            st.conn.close()
            if raised is None and cnt[0] < k:
                break
            if k > 500 * stride:
                res.caps.append("F: more than 500 abort points")
                break
        res.bounds[f"F_steps[{b}]"] = cnt[0]
        if stride > 1:
            res.bounds["F_big_batch_abort_stride"] = stride
        return res

    return run_shards(ctx, work, combos)


# ------------------------------------------------------------------------------------------ driver


def _guarded(part: str, fn, *a) -> Result:
    """An exception of the STORE that escapes an exploration (outside the places where failures are expected) is a
    finding about the store, not a harness error: e.g. `no such table` because a new store object for a re-created file
    was answered from a connection to the old one."""
    try:
        return fn(*a)
    except HarnessError as e:
        if "sqlite3." not in str(e) and "monkeytype" not in str(e):
            raise
        r = Result()
        r.violate(Violation(ID, "exception", "store-raised-during-exploration:" + part, {"part": "G", "which": part}, f"exploration part {part} stopped with an exception of the store: {str(e)[-600:]}"))
        return r
    except (sqlite3.Error, OSError) as e:
        r = Result()
        r.violate(Violation(ID, "exception", "store-raised-during-exploration:" + part, {"part": "G", "which": part}, f"exploration part {part} stopped with {e!r}"))
        return r


def run(ctx: Ctx) -> Result:
    res = Result()
    for part, fn, args in (
        ("H", explore_histories, (ctx, 3 if ctx.quick else 4)), ("X", explore_extras, (ctx,)), ("S", explore_schedules, (ctx, not ctx.quick)),
        ("P", explore_proc_schedules, (ctx,)), ("K", explore_crashes, (ctx, not ctx.quick)), ("F", explore_faults, (ctx,)), ("RF", explore_read_faults, (ctx,)),
    ):
        try:
            res.merge(_guarded(part, fn, *args))
        except HarnessError as e:
            if not res.violations:
                raise
            # the store already misbehaved in an earlier part: a later part whose own set-up relies on a working store
            # cannot be explored; the violations found so far stand
            res.caps.append(f"part {part} not explored after earlier violations: {str(e)[-200:]}")
    return _finish(res)


def _finish(res: Result) -> Result:
    for o in (
        "H:query-distinguishing-LIKE-from-prefix", "H:state-with-duplicates", "H:multi-connection-state",
        "RF:interrupted-query-raised", "X:same-row-committed-on-different-days", "X:tables-with-different-modules", "X:large-batch-whole", "X:file-of-the-released-layout", "X:odd-database-paths",
        "S:second-writer-committed-inside", "P:other-process-committed-while-writer-paused", "K:crash-before-commit", "K:crash-after-commit", "F:abort-rolled-back",
    ):
        res.obligations.setdefault(o, False)
    res.nontrivial_n += res.counters.get("x", 0)
    return res


def replay(case: Dict[str, Any], ctx: Ctx) -> List[Violation]:
    res = Result()
    path = str(ctx.tmp / "replay.sqlite3")
    part = case["part"]
    if part == "H":
        hist = [tuple(e) for e in case["history"]]
        stores, model = apply_history(path, hist, res, {"part": "H", "history": case["history"]})
        raw = indep_rows(path)
        if raw != model:
            res.violate(Violation(ID, "content", "table-differs-from-model", case, "table differs"))
        for ci, st in enumerate(stores):
            check_queries(st, model, res, dict(case, conn=ci), f"history {hist} conn {ci}")
    elif part == "X":
        if case.get("big"):
            return [v for v in explore_extras(ctx).violations if v.case.get("big")]
        if case.get("released"):
            return [v for v in explore_extras(ctx).violations if v.case.get("released")]
        if case.get("odd_path"):
            return [v for v in explore_extras(ctx).violations if v.case.get("odd_path")]
        import monkeytype.db.sqlite as sq
        from mcheck.props.c14 import FakeDatetimeModule

        fake = FakeDatetimeModule()
        old = sq.datetime
        sq.datetime = fake  # type: ignore[assignment]
        try:
            hist = [tuple(e) for e in case["history"]]
            stores, models = x_apply(path, hist, fake)
            for i, (st, model) in enumerate(zip(stores, models)):
                if indep_rows(path, TABLE if i == 0 else X_TABLE) != model:
                    res.violate(Violation(ID, "content", "table-differs-from-model", dict(case, conn=i), "table differs"))
                check_queries(st, model, res, dict(case, conn=i), f"two-table history {hist} store {i}")
        finally:
            sq.datetime = old  # type: ignore[assignment]
    elif part == "G":
        fn = {"H": lambda: explore_histories(ctx, 3), "X": lambda: explore_extras(ctx), "S": lambda: explore_schedules(ctx, False), "P": lambda: explore_proc_schedules(ctx), "K": lambda: explore_crashes(ctx, False), "F": lambda: explore_faults(ctx), "RF": lambda: explore_read_faults(ctx)}[case["which"]]
        return _guarded(case["which"], fn).violations
    elif part == "RF":
        return [v for v in explore_read_faults(ctx).violations if v.case.get("op") == case.get("op")]
    elif part == "P":
        run_proc_schedule(path, case["pre"], case["a"], case["step"], case["op"], case["b"], res, case)
    elif part == "S":
        run_schedule(path, case["pre"], case["a"], [tuple(e) for e in case["events"]], case["b"], res, case)
    elif part == "K":
        pre, b, kill_at = case["pre"], case["batch"], case["kill_at"]
        stores, pre_model = apply_history(path, [("add", 0, x) for x in pre])
        stores[0].conn.close()
        pid = os.fork()
        if pid == 0:
            try:
                crash_child(path, b, kill_at)
            finally:
                os._exit(4)
        os.waitpid(pid, 0)
        after_crash_checks(path, pre_model, [r for r in (row_of(s) for s in BATCHES[b]) if r is not None], res, case, f"SIGKILL at step {kill_at}")
    elif part == "K-syscall":
        r2 = Result()
        syscall_crashes(ctx, r2, path, case["pre"], case["batch"], [r for r in (row_of(s) for s in BATCHES[case["batch"]]) if r is not None])
        res.merge(r2)
    elif part == "F":
        ctx2 = ctx
        r2 = explore_faults_one(ctx2, path, case["pre"], case["batch"], case["abort_at"])
        res.merge(r2)
    return res.violations


def explore_faults_one(ctx: Ctx, path: str, pre, b, k) -> Result:
    """One abort point, same judgement as explore_faults (used by --replay)."""
    res = Result()
    stores, pre_model = apply_history(path, [("add", 0, x) for x in pre])
    st = stores[0]
    cnt = [0]

    def h() -> int:
        cnt[0] += 1
        return 1 if cnt[0] == k else 0

    st.conn.set_progress_handler(h, 1)
    raised = None
    try:
        st.add([mktrace(s) for s in BATCHES[b]])
    except Exception as e:  # noqa: BLE001
        raised = e
    st.conn.set_progress_handler(None, 1)
    raw = indep_rows(path)
    batch_rows = [r for r in (row_of(s) for s in BATCHES[b]) if r is not None]
    case = {"part": "F", "pre": pre, "batch": b, "abort_at": k}
    if raised is not None and raw != pre_model and raw != pre_model + collections.Counter(batch_rows):
        res.violate(Violation(ID, "atomicity", "failed-add-changed-state", case, "changed"))
    if raised is None and raw != pre_model + collections.Counter(batch_rows):
        res.violate(Violation(ID, "atomicity", "add-returned-but-batch-missing", case, "missing"))
    try:
        st.filter("m", None, 10)
        st.list_modules()
        st.add([mktrace(("m2", "after", "int"))])
        raw2 = indep_rows(path)
        if raw2 != raw + collections.Counter([row_of(("m2", "after", "int"))]):
            res.violate(Violation(ID, "atomicity", "aborted-batch-committed-later", case, f"follow-up operations changed the table to {sorted(raw2.items(), key=repr)}"))
    except Exception as e:  # noqa: BLE001
        res.violate(Violation(ID, "recovery", "store-unusable-after-abort", case, f"store raised {e!r} after abort"))
    st.conn.close()
    return res
