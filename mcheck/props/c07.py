"""C07 — shipped rewriters never narrow, never crash, and fire only on their documented trigger.
Engine E1: type grammar T(size) + every type inferred from grammar values x {each shipped rewriter, DEFAULT chain,
ChainedRewriter over all 49 ordered pairs}; oracle: witnesses/member (never narrows) + documented triggers."""
from __future__ import annotations

import collections
import collections.abc
import itertools
import typing
from typing import Any, Dict, List, Optional, Tuple

from mcheck.core.par import run_shards
from mcheck.core.runner import Ctx, Result, Violation
from mcheck.gen import typegram as G
from mcheck.gen import values as V
from mcheck.oracles import types as O
from mcheck.oracles.witness import witnesses

ID = "C07"
RULE = (
    "types = grammar T (atoms, containers, TypedDicts, unions of 2..8 members in every rotation / permutation) + every "
    "distinct type inferred from grammar values (singles, merged pairs, all k); rewriters = 7 shipped singles + DEFAULT "
    "chain + 49 ordered ChainedRewriter pairs; + histories of 2..3 generations of one hierarchy rebuilt under the same "
    "class names in 4 shapes (rewriters and their class-level state live across the history); state = (type, rewriter), transition = one rewrite judged by (no "
    "exception, witnesses stay members, change => documented trigger, chain == sequential composition); non-trivial "
    "= rewrite that changed the type"
)
EXPLANATION = "exhaustive bounded enumeration of the type grammar against the real rewriters"
ASSUMPTIONS = ["C[Any] denotes the empty container C (MonkeyType's convention)", "triggers as documented in the property statement"]


def singles():
    from monkeytype import typing as T

    return [
        ("REC", T.RemoveEmptyContainers()),
        ("RCD", T.RewriteConfigDict()),
        ("RLU2", T.RewriteLargeUnion(2)),
        ("RLU5", T.RewriteLargeUnion()),
        ("MSCB", T.RewriteMostSpecificCommonBase()),
        ("RG", T.RewriteGenerator()),
        ("NOOP", T.NoOpRewriter()),
    ]


def name_of(rw) -> str:
    n = type(rw).__name__
    return {
        "RemoveEmptyContainers": "REC", "RewriteConfigDict": "RCD", "RewriteMostSpecificCommonBase": "MSCB",
        "RewriteGenerator": "RG", "NoOpRewriter": "NOOP",
    }.get(n) or ("RLU%d" % getattr(rw, "max_union_len", -1) if n == "RewriteLargeUnion" else n)


def _is_empty_container(c: tuple) -> bool:
    return c[0] == "generic" and c[2] is not None and len(c[2]) > 0 and all(a is typing.Any for a in c[2])


def has_trigger(rname: str, X: Any) -> bool:
    """Documented triggers (property statement), searched anywhere inside X."""
    if rname == "NOOP":
        return False
    for n in O.walk(X):
        c = O.classify(n)
        if rname == "RG":
            if c[0] == "generic" and c[1] is collections.abc.Generator and c[2] is not None and len(c[2]) == 3 and c[2][1] is O.NoneType and c[2][2] is O.NoneType:
                return True
            continue
        if c[0] != "union":
            continue
        ms = [O.classify(m) for m in c[1]]
        if rname == "REC":
            for m in ms:
                if _is_empty_container(m) and any(o[0] == "generic" and o[1] is m[1] and o[2] is not None and not _is_empty_container(o) for o in ms):
                    return True
        elif rname.startswith("RLU"):
            if len(ms) > int(rname[3:]):
                return True
        elif rname == "RCD":
            if all(m[0] == "generic" and m[1] is dict and m[2] is not None and len(m[2]) == 2 for m in ms):
                if len({O.struct(m[2][0]) for m in ms}) == 1:
                    return True
        elif rname == "MSCB":
            if all(m[0] == "class" for m in ms):
                return True
    return False


def step_check(rname: str, rw, X: Any, extra_vals: List[Any]) -> Tuple[Optional[Any], Optional[Tuple[str, str, str]]]:
    """-> (output or None, violation (kind, sig, msg) or None)."""
    try:
        Y = rw.rewrite(X)
    except Exception as e:  # noqa: BLE001
        return None, ("exception", f"{rname}:{type(e).__name__}", f"{rname}.rewrite({O.show(X)}) raised {e!r}")
    ws = [w for w in witnesses(X) if O.member(w, X)] + [v for v in extra_vals if O.member(v, X)]
    for w in ws:
        if not O.member(w, Y):
            return Y, ("narrow", f"{rname}:narrow", f"{rname}: {O.show(X)} -> {O.show(Y)} no longer admits {w!r}")
    if O.struct(Y) != O.struct(X) and not has_trigger(rname, X):
        return Y, ("no-trigger", f"{rname}:no-trigger", f"{rname} changed {O.show(X)} -> {O.show(Y)} without its documented trigger")
    return Y, None


def inferred_types(tier: str) -> List[Tuple[Any, List[str]]]:
    """Distinct (by structure) types inferred from grammar values, with the value expressions they came from."""
    from monkeytype.typing import get_type, shrink_types

    d1 = V.depth1()
    d2 = V.depth2(quick=True)
    out: Dict[Any, Tuple[Any, List[str]]] = {}

    def add(T, exprs):
        s = O.struct(T)
        if s not in out:
            out[s] = (T, exprs)

    ks = V.KS
    for e in d1 + d2:
        v = V.ev(e)
        for k in ks:
            add(get_type(v, k), [e])
    sub = d1[::3] if tier == "quick" else d1
    pk = (0, 2, 10) if tier == "quick" else ks
    for a, b in itertools.combinations(sub, 2):
        va, vb = V.ev(a), V.ev(b)
        for k in pk:
            add(shrink_types([get_type(va, k), get_type(vb, k)], k), [a, b])
    tr = V.triple_reps()
    for c in itertools.combinations(tr[:: (2 if tier == "quick" else 1)], 3):
        vs = [V.ev(e) for e in c]
        for k in (0, 3):
            add(shrink_types([get_type(v, k) for v in vs], k), list(c))
    # nested empties next to non-empty containers of the same outer kind, and nested unions next to empties
    nested_empty = ["([],)", "({},)", "(set(),)", "[[]]", "[set()]", "{1: []}", "([], 0)", "{'a': []}", "[()]"]
    partners = ["(0,)", "('a',)", "[[0]]", "[0]", "{1: [0]}", "(0, 0)", "([0],)", "({'a': 0},)", "({0},)", "[{0}]", "{'a': [0]}", "[(0,)]"]
    nested_union = ["[{0}, 'a']", "[[0], 'a']", "[{1: 0}, 'a']", "({0}, 0)", "[{0}, [0]]", "{'a': {0}, 'b': 'a'}", "{1: {0}, 2: 'a'}"]
    empties = ["set()", "[]", "{}", "()", "defaultdict(int)"]
    for fam_a, fam_b in ((nested_empty, partners), (nested_union, empties)):
        for a in fam_a:
            for b in fam_b:
                for order in ((a, b), (b, a)):
                    vs = [V.ev(e) for e in order]
                    for k in (0, 3):
                        add(shrink_types([get_type(v, k) for v in vs], k), list(order))
    # large unions as the tracer produces them: six to eight observed shapes at one position
    many = ["0", "'a'", "None", "1.5", "Base()", "Derived()", "Other()", "()", "(0,)", "[]", "[0]", "{}", "len", "int"]
    for n in (6, 7, 8):
        for start in range(len(many)):
            sel = [many[(start + i) % len(many)] for i in range(n)]
            vs = [V.ev(e) for e in sel]
            add(shrink_types([get_type(v, 0) for v in vs], 0), sel)
    return list(out.values())


def collapse_family() -> List[Tuple[Any, List[str]]]:
    """Unions whose members differ only in a nested position that one rewriter changes, written from the DOCUMENTED
    rewrites (not computed with the rewriters): Union[W[X], W[X']] with X' = the documented rewrite of X. Rewriting the
    members makes them equal, so the union collapses to the single container W[X'] - which a rewriter must not then take
    for a union. W ranges over one and two levels of List / Tuple / Dict value / Optional wrappers."""
    from typing import Any as A
    from typing import Dict as D
    from typing import Generator, Iterator, Optional as Opt
    from typing import List as L
    from typing import Tuple as Tu
    from typing import Union as U

    import vfx.shapes as S

    seeds = [
        (U[D[int, int], D[int, str]], D[int, U[int, str]]),
        (U[L[A], L[int]], L[int]),
        (U[int, str, float], A),
        (U[S.Derived, S.Derived2], S.Base),
        (Generator[int, None, None], Iterator[int]),
        (U[D[str, int], D[str, L[A]], D[str, L[int]]], D[str, U[int, L[int]]]),
    ]
    wraps = [lambda t: L[t], lambda t: Tu[t], lambda t: Tu[t, t], lambda t: D[str, t], lambda t: Opt[t], lambda t: Tu[t, ...]]
    out: List[Tuple[Any, List[str]]] = []
    for X, X2 in seeds:
        for wi, w in enumerate(wraps):
            if X2 is A and wi in (1, 2, 5):
                # Tuple[Any] is neither inferable (the empty tuple is Tuple[()]) nor an intermediate result of the default
                # chain (RemoveEmptyContainers runs first); RemoveEmptyContainers reads it as an empty container
                continue
            out.append((U[w(X), w(X2)], []))
            out.append((U[w(X2), w(X)], []))
            out.append((U[w(X), w(X2), int], []))
            for vi, v in enumerate(wraps[:4]):
                if X2 is A and vi in (1, 2):
                    continue
                out.append((U[w(v(X)), w(v(X2))], []))
    return out


GEN_SHAPES = ("common", "none", "deep", "other-root")


def make_generation(shape: str):
    """One generation of a small hierarchy whose classes carry the SAME module and qualified names every time it is built
    (a re-executed module, a class factory, function-local classes): GB and GC with, depending on the shape, a common base
    GA, no common base, GC below GB, or a common base that is a different root class GR."""
    ns = {"__module__": "vfx.generations"}
    mk = lambda name, bases: type(name, bases, dict(ns, __qualname__=name))  # noqa: E731
    A = mk("GA", ())
    R = mk("GR", ())
    if shape == "common":
        B, C = mk("GB", (A,)), mk("GC", (A,))
    elif shape == "none":
        B, C = mk("GB", ()), mk("GC", ())
    elif shape == "deep":
        B = mk("GB", (A,))
        C = mk("GC", (B,))
    else:
        B, C = mk("GB", (R,)), mk("GC", (R,))
    return B, C


def generation_stage(res: Result) -> None:
    """Histories of two and three generations (every ordered selection of the four shapes): the classes of a later
    generation are different objects with the names of the earlier one. Every shipped rewriter and the default chain rewrite
    Union[GB, GC], Optional[...] and List[Union[GB, GC]] of each generation in turn, on instances that live for the whole
    history (class-level state included); each step is judged like any other (witnesses = instances of that generation)."""
    from typing import List as L
    from typing import Optional as Opt
    from typing import Union as U

    from monkeytype.typing import DEFAULT_REWRITER

    sing = singles() + [("DEFAULT", DEFAULT_REWRITER)]
    for n in (2, 3):
        for hist in itertools.product(GEN_SHAPES, repeat=n):
            res.states += 1
            for gi, shape in enumerate(hist):
                B, C = make_generation(shape)
                vals = [B(), C()]
                for form, X, ws in (("union", U[B, C], vals), ("optional", Opt[U[B, C]], vals + [None]), ("list", L[U[B, C]], [[B(), C()], [C()]])):
                    for rname, rw in sing:
                        res.transitions += 1
                        res.evaluations += 1
                        case = {"generations": list(hist), "at": gi, "form": form, "rewriter": [rname]}
                        if rname == "DEFAULT":
                            try:
                                Y = rw.rewrite(X)
                            except Exception as e:  # noqa: BLE001
                                res.violate(Violation(ID, "exception", "generations:DEFAULT:exception", case, f"DEFAULT raised {e!r}"))
                                continue
                            bad = [w for w in ws if not O.member(w, Y)]
                            if bad:
                                res.violate(Violation(ID, "narrow", "generations:DEFAULT:narrow", case, f"DEFAULT: generation {gi} of {hist}: {O.show(X)} -> {O.show(Y)} no longer admits an instance of {type(bad[0]).__name__}"))
                            continue
                        Y, viol = step_check(rname, rw, X, ws)
                        if viol:
                            res.violate(Violation(ID, viol[0], "generations:" + viol[1], case, f"generation {gi} of {hist}: " + viol[2]))
                        elif O.struct(Y) != O.struct(X):
                            res.nontrivial_n += 1
                            res.outcomes.add(("gen", rname, shape, form))
    res.oblige("generations:MSCB-fired", any(o[:2] == ("gen", "MSCB") for o in res.outcomes if isinstance(o, tuple)))


def process_type(res: Result, ctx_tier: str, ci: int, X: Any, exprs: List[str], sing, memo, DEFAULT_REWRITER, ChainedRewriter) -> None:
    """Everything that is done with one type, in a fixed order (singles, the 49 pairs, the default chain): state carried
    between rewriter calls is part of what is explored, so --replay re-runs this whole procedure for the case's type."""

    def step(rname, rw, X, vals):
        key = (rname, O.ostruct(X))
        if key not in memo or vals:
            res.transitions += 1
            res.evaluations += 1
            res.validated += 1
            memo[key] = step_check(rname, rw, X, vals)
        return memo[key]

    res.states += 1
    vals = [V.ev(e) for e in exprs]
    case = {"type_index": ci, "tier": ctx_tier, "type": O.show(X), "values": exprs}
    outs = {}
    for rname, rw in sing:
        Y, viol = step(rname, rw, X, vals)
        outs[rname] = Y
        if viol:
            res.violate(Violation(ID, viol[0], viol[1], dict(case, rewriter=[rname]), viol[2]))
        elif Y is not None:
            changed = O.struct(Y) != O.struct(X)
            res.oblige(f"{rname}:{'changed' if changed else 'unchanged'}", True)
            if changed:
                res.nontrivial_n += 1
                res.outcomes.add((rname, hash(O.struct(Y))))
    # chains: every ordered pair; ChainedRewriter must equal sequential composition, each step judged alone
    for (n1, r1), (n2, r2) in itertools.product(sing, sing):
        Y1 = outs.get(n1)
        if Y1 is None:
            continue
        Y2, viol = step(n2, r2, Y1, [])
        if viol:
            res.violate(Violation(ID, viol[0], viol[1], dict(case, rewriter=[n1, n2]), f"after {n1}: " + viol[2]))
            continue
        res.transitions += 1
        try:
            Yc = ChainedRewriter([r1, r2]).rewrite(X)
        except Exception as e:  # noqa: BLE001
            if Y2 is not None:
                res.violate(Violation(ID, "exception", f"chain:{type(e).__name__}", dict(case, rewriter=[n1, n2]), f"chain raised {e!r}"))
            continue
        if Y2 is not None and O.struct(Yc) != O.struct(Y2):
            res.violate(Violation(ID, "chain", "chain-not-sequential", dict(case, rewriter=[n1, n2]), f"Chained({n1},{n2})({O.show(X)}) = {O.show(Yc)} but sequential = {O.show(Y2)}"))
    # the default chain as shipped
    cur = X
    ok = True
    names = []
    for rw in DEFAULT_REWRITER.rewriters:
        rname = name_of(rw)
        names.append(rname)
        Y, viol = step(rname, rw, cur, vals if cur is X else [])
        if viol:
            res.violate(Violation(ID, viol[0], "DEFAULT/" + viol[1], dict(case, rewriter=["DEFAULT"]), f"default chain at {rname}: " + viol[2]))
            ok = False
            break
        cur = Y
    if ok:
        res.transitions += 1
        try:
            Yd = DEFAULT_REWRITER.rewrite(X)
            if O.struct(Yd) != O.struct(cur):
                res.violate(Violation(ID, "chain", "default-not-sequential", dict(case, rewriter=["DEFAULT"]), f"DEFAULT({O.show(X)}) = {O.show(Yd)} but sequential = {O.show(cur)}"))
            for w in [w for w in witnesses(X) if O.member(w, X)] + [v for v in vals if O.member(v, X)]:
                if not O.member(w, Yd):
                    res.violate(Violation(ID, "narrow", "DEFAULT:narrow", dict(case, rewriter=["DEFAULT"]), f"DEFAULT: {O.show(X)} -> {O.show(Yd)} no longer admits {w!r}"))
                    break
            res.oblige("DEFAULT:names=" + ",".join(names), True)
        except Exception as e:  # noqa: BLE001
            res.violate(Violation(ID, "exception", f"DEFAULT:{type(e).__name__}", dict(case, rewriter=["DEFAULT"]), f"DEFAULT raised {e!r}"))
    if ci % 1501 == 0:
        res.sample({"type": O.show(X), "from_values": exprs})


def run(ctx: Ctx) -> Result:
    quick = ctx.quick
    nshards = ctx.workers * 3

    def shard(ctx: Ctx, si: int) -> Result:
        from monkeytype.typing import DEFAULT_REWRITER, ChainedRewriter

        res = Result()
        sing = singles()
        synth = [(t, []) for t in G.all_types(quick)]
        if not quick:
            synth = synth[: 9000] + synth[9000::3]
        cases = synth + inferred_types(ctx.tier) + [(t, []) for t in G.typing_named()] + collapse_family()
        memo: Dict[Tuple[str, Any], Tuple[Any, Any]] = {}

        for ci in range(si, len(cases), nshards):
            X, exprs = cases[ci]
            process_type(res, ctx.tier, ci, X, exprs, sing, memo, DEFAULT_REWRITER, ChainedRewriter)
        if si == 0:
            generation_stage(res)
        res.extra["types_synthetic"] = len(synth)
        res.extra["types_inferred"] = len(cases) - len(synth)
        return res

    res = run_shards(ctx, shard, list(range(nshards)))
    for rname in ("REC", "RCD", "RLU2", "RLU5", "MSCB", "RG"):
        res.obligations.setdefault(f"{rname}:changed", False)
        res.obligations.setdefault(f"{rname}:unchanged", False)
    res.obligations.setdefault("NOOP:unchanged", False)
    res.obligations.setdefault("DEFAULT:names=REC,RCD,RLU5,RG", False)
    res.bounds.update({"tier": ctx.tier, "union_members": "2..8", "rewriters": 7, "pairs": 49})
    return res


def replay(case: Dict[str, Any], ctx: Ctx) -> List[Violation]:
    from monkeytype.typing import DEFAULT_REWRITER, ChainedRewriter

    if "generations" in case:
        res = Result()
        generation_stage(res)
        return res.violations

    quick = case["tier"] == "quick"
    synth = [(t, []) for t in G.all_types(quick)]
    if not quick:
        synth = synth[: 9000] + synth[9000::3]
    cases = synth + inferred_types(case["tier"]) + [(t, []) for t in G.typing_named()] + collapse_family()
    X, exprs = cases[case["type_index"]]
    res = Result()
    process_type(res, case["tier"], case["type_index"], X, exprs, singles(), {}, DEFAULT_REWRITER, ChainedRewriter)
    return res.violations
