"""C14 — stub content depends only on the set of traces, not their order or process.
E2+E1: trace families (<= 6 distinct traces over <= 3 functions) x every permutation of the rows x duplication patterns
x every split into batches over 1..2 connections, through the real SQLite store and `stub`; inside stub building every
set's iteration order is an explorer-owned seam (all single deviations from insertion order + global reverse/rotate);
separate interpreters with PYTHONHASHSEED in {0, 1, seed-derived}; k in {0,3}; default rewriter and none."""
from __future__ import annotations

import io
import itertools
import os
import subprocess
import sys
from typing import Any, Dict, List, Optional, Sequence, Tuple

from mcheck.core.par import run_shards
from mcheck.core.runner import VERIF, Ctx, HarnessError, Result, Violation
from mcheck.oracles import stubeval as SE
from mcheck.oracles import types as O

ID = "C14"
RULE = (
    "14 trace families (unions of 2..7 members, Optional, TypedDict merges at k=3, same-named dict parameters of two "
    "functions, generators with several yield types, methods with subclass receivers, > 5 tuple shapes) x {every "
    "permutation of the rows (<= 5 rows; 6..7 rows: rotations + reversal), every single duplication, every split into "
    "consecutive batches x {1,2} connections} x k in {0,3} x {default rewriter, --disable-type-rewriting}; set-iteration "
    "seam inside monkeytype.stubs: every single-point permutation deviation + global reverse/rotate policies; 3 hash "
    "seeds in fresh interpreters; state = one (history, schedule) execution, transition = one stub compared per "
    "position with unions as sets; non-trivial = execution whose row order differs from the reference order"
)
EXPLANATION = "exhaustive bounded exploration of store histories and set-iteration schedules against the real stub pipeline"
ASSUMPTIONS = ["per-process memory layout is owned through the set-iteration seam inside monkeytype.stubs only", "three PYTHONHASHSEED values"]

MOD = "vfx.shapes"
MODS = ["vfx.shapes", "vfx.shapes2", "vfx.twa", "vfx.twb"]
SEP = "\n#####MODULE#####\n"


def families():
    """name -> list of (function, arg_types, return_type, yield_type) built lazily (needs fixtures importable)."""
    from typing import Dict as D
    from typing import List as L
    from typing import Tuple as Tu

    import vfx.shapes as S
    import vfx.shapes2 as S2
    import vfx.twa as TA
    import vfx.twb as TB

    from mcheck.oracles.stubeval import mk_atd

    assert TA.tw.__code__ == TB.tw.__code__ and TA.tw.__code__ is not TB.tw.__code__, "twin fixtures no longer have equal code objects"

    NT = type(None)
    fam: Dict[str, List[Tuple[Any, Dict[str, Any], Any, Any]]] = {
        "union3": [(S.mfunc, {"x": int}, int, None), (S.mfunc, {"x": str}, str, None), (S.mfunc, {"x": L[int]}, NT, None)],
        "optional+classes": [(S.mfunc, {"x": NT}, S.Derived, None), (S.mfunc, {"x": S.Derived}, S.Derived2, None), (S.mfunc, {"x": S.Base}, NT, None), (S.Base.meth, {"self": S.Base, "x": int}, int, None)],
        "typed-dict-merge": [(S.mfunc, {"x": mk_atd({"a": int}, {})}, int, None), (S.mfunc, {"x": mk_atd({"a": int, "b": str}, {})}, int, None), (S.mfunc, {"x": mk_atd({"b": str}, {})}, str, None), (S.mfunc, {"x": mk_atd({"a": str}, {})}, str, None)],
        "typed-dict-oversize": [(S.mfunc, {"x": mk_atd({"a": int, "b": int}, {})}, int, None), (S.mfunc, {"x": mk_atd({"c": str, "d": int}, {})}, int, None), (S.mfunc, {"x": mk_atd({"a": int}, {})}, int, None)],
        "same-named-dict-param-two-functions": [(S.mfunc, {"x": mk_atd({"a": int}, {})}, int, None), (S.wrapped.__wrapped__, {"x": mk_atd({"b": str}, {})}, int, None), (S.Base.smeth, {"x": mk_atd({"c": float}, {})}, int, None)],
        "generator-yields": [(S.genfunc, {"n": int}, None, int), (S.genfunc, {"n": int}, None, str), (S.genfunc, {"n": int}, NT, bytes), (S.genfunc, {"n": str}, int, int)],
        "methods-subclass-receivers": [(S.Base.meth, {"self": S.Base, "x": int}, int, None), (S.Base.meth, {"self": S.Derived, "x": str}, str, None), (S.Base.meth, {"self": S.Multi, "x": S.Other}, NT, None), (S.Base.cmeth.__func__, {"cls": typing_type(S.Base), "x": int}, int, None), (S.Base.cmeth.__func__, {"cls": typing_type(S.Derived), "x": L[str]}, L[str], None)],
        "six-tuple-shapes": [(S.mfunc, {"x": t}, int, None) for t in (Tu[int], Tu[int, int], Tu[str], Tu[str, str], Tu[float], Tu[int, int, int], Tu[()])],
        "seven-classes": [(S.mfunc, {"x": t}, NT, None) for t in (int, str, float, bytes, S.Base, S.Other, NT)],
        "six-classes-two-base-orders": [(S.mfunc, {"x": t}, NT, None) for t in (S.DA, S.DB, S.DC, S.DD, S.DE, S.DF)],
        "same-qualname-two-modules": [(S.mfunc, {"x": int}, int, None), (S2.mfunc, {"x": int}, int, None), (S2.mfunc, {"x": str}, str, None), (S.Base.meth, {"self": S.Base, "x": int}, int, None), (S2.Base.meth, {"self": S2.Base, "x": int}, int, None)],
        "nested-class-methods": [(S.Outer.Inner.imeth, {"self": S.Outer.Inner, "x": int}, int, None), (S.Outer.Inner.ismeth, {"x": str}, str, None), (S.Outer.Inner.Deep.dmeth, {"self": S.Outer.Inner.Deep, "x": int}, NT, None), (S.Outer.ometh, {"self": S.Outer, "x": float}, float, None)],
        "typed-dict-subset-in-tuples": [(S.mfunc, {"x": Tu[mk_atd({"a": int, "b": str}, {})]}, int, None), (S.mfunc, {"x": Tu[mk_atd({"a": int}, {})]}, int, None), (S.wrapped.__wrapped__, {"x": D[int, mk_atd({"a": int, "b": str}, {})]}, int, None), (S.wrapped.__wrapped__, {"x": D[int, mk_atd({"a": int}, {})]}, int, None), (S.wrapped.__wrapped__, {"x": D[int, mk_atd({"a": int, "b": str, "c": int}, {})]}, int, None)],
        "differing-argument-name-sets": [(S.Base.meth, {"self": S.Base, "x": int}, int, None), (S.Base.meth, {"self": S.Base}, int, None), (S.Base.meth, {"self": S.Derived, "x": str}, str, None), (S.mfunc, {}, int, None), (S.mfunc, {"x": float}, int, None)],
        # calls with identical argument types that differ only in what they returned / yielded
        "same-arguments-different-results": [(S.mfunc, {"x": int}, int, None), (S.mfunc, {"x": int}, str, None), (S.mfunc, {"x": int}, NT, None), (S.genfunc, {"n": int}, None, int), (S.genfunc, {"n": int}, None, str)],
        # a type first used by a None-defaulted parameter of one module (Optional[...]), then by required / otherwise
        # defaulted parameters of another module
        "optional-parameter-then-plain-parameter-two-modules": [(S.mfunc, {"x": int}, int, None), (S2.req, {"p": int}, int, None), (S2.deflt, {"q": int}, NT, None), (S2.req, {"p": S.Base}, S.Base, None), (S.mfunc, {"x": S.Base}, NT, None)],
        # functions with EQUAL code objects (same text, same lines) in two modules that differ in defaults and annotations
        "twin-code-different-defaults": [(TA.tw, {"a": int, "b": int}, int, None), (TB.tw, {"a": int, "b": int}, int, None), (TA.TwData.__init__, {"self": TA.TwData, "count": int, "label": str}, NT, None), (TB.TwData.__init__, {"self": TB.TwData, "count": int, "label": str}, NT, None)],
        "dict-unions": [(S.mfunc, {"x": D[str, int]}, D[str, int], None), (S.mfunc, {"x": D[str, str]}, D[str, str], None), (S.mfunc, {"x": D[int, int]}, L[int], None), (S.mfunc, {"x": L[int]}, L[str], None), (S.mfunc, {"x": L[typing_any()]}, L[typing_any()], None)],
    }
    return fam


def typing_type(c):
    import typing

    return typing.Type[c]


def typing_any():
    import typing

    return typing.Any


def mk_traces(spec):
    from monkeytype.tracing import CallTrace

    return [CallTrace(f, dict(a), r, y) for f, a, r, y in spec]


def histories(n: int) -> List[Tuple[str, List[List[int]], int, Optional[List[int]]]]:
    """-> (label, batches as lists of row indices (may repeat = duplication), number of connections, day of each batch
    or None = all on one day). Batches logged on different days are 'separate runs': the store returns newer days first."""
    out: List[Tuple[str, List[List[int]], int, Optional[List[int]]]] = []
    idx = list(range(n))
    perms = list(itertools.permutations(idx)) if n <= 5 else [tuple(idx[i:] + idx[:i]) for i in range(n)] + [tuple(reversed(idx))]
    for p in perms:
        out.append(("perm", [list(p)], 1, None))
    for i in idx:
        out.append(("dup-end", [idx + [i]], 1, None))
        out.append(("dup-front", [[i] + idx], 1, None))
        out.append(("dup-other-day", [idx, [i]], 1, [0, 1]))
    out.append(("dup-all", [idx + idx], 1, None))
    # many copies of one row (more raw rows than the query limit of n+2, fewer distinct ones), early and late
    out.append(("dup-heavy-same-day", [[0] * (n + 4) + idx], 1, None))
    out.append(("dup-heavy-newest", [idx, [0] * (n + 4)], 1, [0, 1]))
    out.append(("dup-heavy-oldest", [[0] * (n + 4), idx], 1, [0, 1]))
    out.append(("dup-heavy-last-row-newest", [idx, [n - 1] * (n + 4)], 2, [0, 2]))
    # every split of the identity order into consecutive batches, 1 and 2 connections (alternating)
    for mask in range(1, 2 ** (n - 1)):
        batches: List[List[int]] = [[]]
        for j in idx:
            batches[-1].append(j)
            if j < n - 1 and mask & (1 << j):
                batches.append([])
        out.append(("split", batches, 1, None))
        out.append(("split", batches, 2, None))
        out.append(("split-runs-on-later-days", batches, 1, list(range(len(batches)))))
        out.append(("split-runs-on-earlier-days", batches, 2, list(range(len(batches), 0, -1))))
    # the same rows reversed and split per row over two connections
    out.append(("split", [[j] for j in reversed(idx)], 2, None))
    # one run per row, every assignment of distinct days to the rows (row order as seen by the reader = any permutation)
    day_perms = list(itertools.permutations(idx)) if n <= 4 else [tuple(idx[i:] + idx[:i]) for i in range(n)] + [tuple(reversed(idx))]
    for dp in day_perms:
        out.append(("one-run-per-row-days", [[j] for j in idx], 1, list(dp)))
    return out


class SeamSet(set):
    """set whose iteration order is chosen by the explorer (installed as `set` inside monkeytype.stubs)."""

    def __iter__(self):
        items = list(set.__iter__(self))
        # insertion order is not recorded by set; canonical base order = sorted by repr, then permuted by the policy
        items.sort(key=_stable_key)
        return iter(POLICY.permute(items))


def _stable_key(x: Any) -> str:
    try:
        return O.show(x) if not hasattr(x, "func") else repr((x.func.__qualname__, sorted((n, O.show(t)) for n, t in x.arg_types.items()), x.return_type and O.show(x.return_type), x.yield_type and O.show(x.yield_type)))
    except Exception:  # noqa: BLE001
        return repr(x)


class Policy:
    def __init__(self) -> None:
        self.mode = "identity"
        self.point = -1
        self.variant = 0
        self.n = 0

    def begin(self, mode: str, point: int = -1, variant: int = 0) -> None:
        self.mode, self.point, self.variant, self.n = mode, point, variant, 0

    def permute(self, items: List[Any]) -> List[Any]:
        i = self.n
        self.n += 1
        if len(items) < 2:
            return items
        if self.mode == "reverse":
            return items[::-1]
        if self.mode == "rotate":
            return items[1:] + items[:1]
        if self.mode == "deviate" and i == self.point:
            perms = list(itertools.permutations(items)) if len(items) <= 4 else [tuple(items[::-1]), tuple(items[1:] + items[:1]), tuple(items[-1:] + items[:-1])]
            return list(perms[self.variant % len(perms)])
        return items


POLICY = Policy()


def canonical(text: str, mod) -> Tuple[Optional[str], Any]:
    """Canonical form of the stubs of all modules (joined by SEP)."""
    import importlib

    parts = text.split(SEP)
    if len(parts) > 1:
        fs: Dict[Any, Any] = {}
        ts: Dict[Any, Any] = {}
        im: List[Any] = []
        du: List[Any] = []
        for mname, part in zip(MODS, parts):
            bad, c = canonical(part, importlib.import_module(mname))
            if bad:
                return bad, None
            fs.update({(mname,) + tuple(k): v for k, v in c[0].items()})
            ts.update({(mname, k): v for k, v in c[1].items()})
            im += [(mname,) + tuple(x) for x in c[2]]
            du += list(c[3])
        return None, (fs, ts, tuple(im), tuple(du))
    own = {n: v for n, v in vars(mod).items() if isinstance(v, type)}
    info = SE.parse(text, own, lenient_modules=["vfx", "vfx.shapes", "typing"])
    if info.syntax_error:
        return "syntax:" + info.syntax_error, None
    funcs = {}
    for key, fis in sorted(info.funcs.items()):
        fi = fis[0]
        entry = {}
        for pn, v in fi.ann.items():
            nv = SE.normalize(v, info)
            entry[pn] = ("ERR", nv.msg) if isinstance(nv, SE.Err) else O.struct(nv)
        if fi.has_return:
            nv = SE.normalize(fi.returns, info)
            entry["return"] = ("ERR", nv.msg) if isinstance(nv, SE.Err) else O.struct(nv)
        entry["__decorators__"] = tuple(fi.decorators)
        entry["__count__"] = len(fis)
        funcs[key] = entry
    tds = {}
    for name in info.td_classes:
        req, opt = SE.td_fields(info, name)
        tds[name] = (
            tuple(sorted((n, repr(O.struct(SE.normalize(t, info))) if not isinstance(SE.normalize(t, info), SE.Err) else "ERR") for n, t in req.items())),
            tuple(sorted((n, repr(O.struct(SE.normalize(t, info))) if not isinstance(SE.normalize(t, info), SE.Err) else "ERR") for n, t in opt.items())),
        )
    imports = tuple(sorted(set(info.imports)))
    return None, (funcs, tds, imports, tuple(info.duplicate_classes))


def diff_canon(a: Any, b: Any) -> str:
    fa, ta, ia, da = a
    fb, tb, ib, db = b
    if set(fa) != set(fb):
        return f"functions differ: {sorted(fa)} vs {sorted(fb)}"
    for k in fa:
        if fa[k] != fb[k]:
            for p in set(fa[k]) | set(fb[k]):
                if fa[k].get(p) != fb[k].get(p):
                    return f"{k} {p}: {fa[k].get(p)!r} vs {fb[k].get(p)!r}"
    if ta != tb:
        return f"TypedDict classes differ: {ta} vs {tb}"
    if ia != ib:
        return f"imports differ: {sorted(set(ia) ^ set(ib))}"
    return "differs"


class FakeDatetimeModule:
    """Stands in for the `datetime` module inside monkeytype.db.sqlite: the explorer decides the day of each run."""

    def __init__(self) -> None:
        import datetime as real

        self.real = real
        self.day = 0
        self.calls = 0

        outer = self

        class _DT:
            @staticmethod
            def now(tz=None):
                outer.calls += 1
                return real.datetime(2024, 1, 1, 12, 0, 0) + real.timedelta(days=outer.day, seconds=outer.calls)

        self.datetime = _DT

    def __getattr__(self, name):
        return getattr(self.real, name)


def run_history(db: str, traces, batches: List[List[int]], nconn: int, days: Optional[List[int]] = None) -> None:
    import monkeytype.db.sqlite as sq
    from monkeytype.db.sqlite import SQLiteStore

    if os.path.exists(db):
        os.unlink(db)
    fake = FakeDatetimeModule()
    old = sq.datetime
    sq.datetime = fake  # type: ignore[assignment]
    try:
        stores = [SQLiteStore.make_store(db) for _ in range(nconn)]
        for bi, b in enumerate(batches):
            fake.day = days[bi] if days else 0
            stores[bi % nconn].add([traces[i] for i in b])
        # (the connections are dropped, not closed: a store handed out by make_store is the library's to manage, and code
        # that hands the same store out again must not find it closed by the harness)
        del stores
        if batches and any(batches) and fake.calls == 0:
            raise HarnessError("clock seam not consulted by SQLiteStore.add (seam lost)")
    finally:
        sq.datetime = old  # type: ignore[assignment]


def stub_inproc(k: int, rewriting: bool) -> Tuple[Any, str, str]:
    import mcfg
    from monkeytype import cli

    outs, errs, rcs = [], [], []
    for mod in MODS:
        out, err = io.StringIO(), io.StringIO()
        argv = ["-c", "mcfg:fresh()"] + ([] if rewriting else ["--disable-type-rewriting"]) + ["stub", mod]
        try:
            rc = cli.main(argv, out, err)
        except Exception as e:  # noqa: BLE001
            rc = f"raised {e!r}"
        rcs.append(rc)
        outs.append(out.getvalue())
        errs.append(err.getvalue())
    rc_all = 0 if all(r == 0 for r in rcs) else rcs
    return rc_all, SEP.join(outs), "".join(errs)


def explore_family(ctx: Ctx, fname: str) -> Result:
    import mcfg
    import monkeytype.stubs as stubs_mod
    import vfx.shapes as S

    res = Result()
    fam = families()[fname]
    n = len(fam)
    db_base = str(ctx.tmp / f"c14_{fname}")
    db_n = [0]

    def fresh_db() -> str:
        """every history gets a database file of its own (a path is never reused for different contents)"""
        old = f"{db_base}_{db_n[0]}.sqlite3"
        if os.path.exists(old):
            os.unlink(old)
        db_n[0] += 1
        path = f"{db_base}_{db_n[0]}.sqlite3"
        mcfg.STATE["db"] = path
        return path

    db = fresh_db()
    for k in (0, 3):
        for rewriting in (True, False):
            traces = mk_traces(fam)
            mcfg.reset(db=db, k=k, limit=n + 2)   # more than the distinct rows, fewer than the raw rows of dup-heavy histories
            ref = None
            ref_label = None

            def judge(label: str, text_rc: Tuple[Any, str, str], case: Dict[str, Any]) -> None:
                nonlocal ref, ref_label
                rc, text, err = text_rc
                res.evaluations += 1
                res.validated += 1
                res.transitions += 1
                if rc != 0:
                    res.violate(Violation(ID, "exception", fname, case, f"{label}: stub rc={rc} {err[-300:]}"))
                    return
                bad, canon = canonical(text, S)
                if bad:
                    res.violate(Violation(ID, "syntax", fname, case, f"{label}: {bad}"))
                    return
                if ref is None:
                    ref, ref_label = canon, label
                    return
                if canon != ref:
                    collide = bool(canon[3] or ref[3])
                    sig = "typed-dict-class-name-collision:" + fname if collide else fname
                    res.violate(Violation(ID, "order-dependence", sig, case, f"{label} vs {ref_label}: {diff_canon(ref, canon)}"))
                res.outcomes.add(hash(repr(canon)))

            # histories, identity set policy
            for hi, (label, batches, nconn, days) in enumerate(histories(n)):
                res.states += 1
                db = fresh_db()
                run_history(db, traces, batches, nconn, days)
                POLICY.begin("identity")
                case = {"family": fname, "k": k, "rewriting": rewriting, "history": hi, "policy": ["identity", -1, 0]}
                judge(f"{label}{batches}x{nconn} days={days}", stub_inproc(k, rewriting), case)
                if hi:
                    res.nontrivial_n += 1
                if hi == 7 and k == 3 and rewriting:
                    res.sample({"family": fname, "rows": n, "history": {"kind": label, "batches": batches, "connections": nconn, "days": days}})
            # set-iteration schedules on the reference history
            db = fresh_db()
            run_history(db, traces, [list(range(n))], 1)
            old_set = stubs_mod.__dict__.get("set", None)
            stubs_mod.set = SeamSet  # type: ignore[attr-defined]
            try:
                POLICY.begin("identity")
                judge("seam-identity", stub_inproc(k, rewriting), {"family": fname, "k": k, "rewriting": rewriting, "history": 0, "policy": ["identity", -1, 0]})
                npoints = POLICY.n
                if npoints < 1:
                    # (fewer points than usual is not an error: code that iterates something else than sets is still
                    # explored through the row-order histories above; only a seam that is never consulted is vacuous)
                    raise HarnessError(f"set-iteration seam consulted only {npoints} times (seam lost)")
                scheds = [("reverse", -1, 0), ("rotate", -1, 0)] + [("deviate", p, v) for p in range(npoints) for v in range(1, 6 if ctx.quick else 24)]
                for mode, p, v in scheds:
                    res.states += 1
                    POLICY.begin(mode, p, v)
                    case = {"family": fname, "k": k, "rewriting": rewriting, "history": 0, "policy": [mode, p, v]}
                    judge(f"set-order {mode}@{p}/{v}", stub_inproc(k, rewriting), case)
                    res.nontrivial_n += 1
                res.bounds[f"seam_points[{fname},k={k}]"] = npoints
                res.oblige("seam-consulted", True)
            finally:
                if old_set is None:
                    del stubs_mod.set  # type: ignore[attr-defined]
                else:
                    stubs_mod.set = old_set  # type: ignore[attr-defined]
            # the other public entry point: a StubIndexBuilder fed in every split, with get_stubs() called between the parts
            if rewriting is False:
                from monkeytype.stubs import StubIndexBuilder

                sib_ref = None
                splits = [[list(range(n))]] + [[list(range(0, c)), list(range(c, n))] for c in range(1, n)] + [[[i] for i in range(n)], [[i] for i in reversed(range(n))]]
                for sp in splits:
                    res.states += 1
                    res.evaluations += 1
                    res.validated += 1
                    res.transitions += 1
                    case = {"family": fname, "k": k, "rewriting": rewriting, "history": 0, "policy": ["StubIndexBuilder", len(sp), 0]}
                    try:
                        sib = StubIndexBuilder(".*", k)
                        for part in sp:
                            for i in part:
                                sib.log(traces[i])
                            stubs_now = sib.get_stubs()
                        text_sib = SEP.join(stubs_now[m].render() if m in stubs_now else "" for m in MODS)
                    except Exception as e:  # noqa: BLE001
                        res.violate(Violation(ID, "exception", "StubIndexBuilder:" + fname, case, f"StubIndexBuilder raised {e!r}"))
                        continue
                    bad, canon = canonical(text_sib, S)
                    if bad:
                        res.violate(Violation(ID, "syntax", fname, case, f"StubIndexBuilder: {bad}"))
                        continue
                    if sib_ref is None:
                        sib_ref = canon
                    elif canon != sib_ref:
                        collide = bool(canon[3] or sib_ref[3])
                        res.violate(Violation(ID, "order-dependence", ("typed-dict-class-name-collision:" if collide else "StubIndexBuilder:") + fname, case, f"StubIndexBuilder fed in parts {sp} (get_stubs() after each part) vs in one go: {diff_canon(sib_ref, canon)}"))
                res.oblige("StubIndexBuilder-splits", True)
            # fresh interpreters with different hash seeds (per-process layout)
            if rewriting or not ctx.quick:
                seeds = [0, 1, ctx.seed % 997 + 2]
                for hs in seeds:
                    env = dict(os.environ, PYTHONHASHSEED=str(hs), MCFG_DB=db, MCFG_K=str(k))
                    # (the second seed's interpreter generates the module stubs in the reverse order)
                    argv = [sys.executable, "-W", "ignore", str(VERIF / "mcheck" / "props" / "c14_child.py"), db, str(k), "1" if rewriting else "0", str(n + 2), "rev" if hs == 1 else "fwd"]
                    r = subprocess.run(argv, capture_output=True, text=True, env=env)
                    res.states += 1
                    case = {"family": fname, "k": k, "rewriting": rewriting, "history": 0, "policy": ["hashseed", hs, 0]}
                    judge(f"PYTHONHASHSEED={hs}", (0 if r.returncode == 0 else f"rc={r.returncode}", r.stdout, r.stderr), case)
                    res.oblige("fresh-interpreters", True)
    return res


def member_order_stage(ctx: Ctx) -> Result:
    """The same traces with the members of the unions INSIDE their types written in different orders (as two runs record
    them when dict keys / set elements are met in a different order): equal stubs up to union member order. Every
    assignment of member orders to the traces, default rewriter and none, k in {0, 3}."""
    import importlib
    from typing import Dict as D
    from typing import List as L
    from typing import Set as St
    from typing import Union as U

    import vfx.shapes as S
    from monkeytype.stubs import build_module_stubs_from_traces
    from monkeytype.tracing import CallTrace
    from monkeytype.typing import DEFAULT_REWRITER, NoOpRewriter

    res = Result()
    A, B = U[int, str], U[str, int]
    assert A == B and A is not B
    # typing caches generic aliases by EQUALITY of their arguments (Dict[B, str] returns an earlier Dict[A, str]), so every
    # assignment of member orders gets value types of its own and the canonical forms are compared after renaming them
    vsets = [(float, bytes, complex), (bytearray, range, slice), (frozenset, memoryview, bool), (S.Base, S.Other, S.Derived)]
    shapes = [
        ("dict-key-unions", lambda k1, k2, v: [(S.mfunc, {"x": D[k1, v[0]]}, D[k1, v[0]]), (S.mfunc, {"x": D[k2, v[1]]}, D[k2, v[1]])]),
        ("list-element-unions", lambda k1, k2, v: [(S.mfunc, {"x": D[v[0], L[k1]]}, L[v[0]]), (S.mfunc, {"x": D[v[0], L[k2]]}, St[v[1]])]),
        ("three-dicts", lambda k1, k2, v: [(S.mfunc, {"x": D[k1, v[0]]}, int), (S.mfunc, {"x": D[k2, v[1]]}, int), (S.mfunc, {"x": D[k1, v[2]]}, int)]),
    ]
    mod = importlib.import_module("vfx.shapes")

    def neutral(canon: Any, v) -> Any:
        names = {c: f"<V{i}>" for i, c in enumerate(v)}

        def walk(x: Any) -> Any:
            if isinstance(x, type):
                return names.get(x, x)
            if isinstance(x, tuple):
                return tuple(walk(y) for y in x)
            if isinstance(x, frozenset):
                return frozenset(walk(y) for y in x)
            if isinstance(x, dict):
                return tuple(sorted(((walk(k_), walk(v_)) for k_, v_ in x.items()), key=repr))
            if isinstance(x, list):
                return tuple(walk(y) for y in x)
            return x

        return walk((canon[0], canon[1]))   # functions and TypedDict classes (the import lists differ with the value classes)

    for sname, mk in shapes:
        for k in (0, 3):
            for rname, rw in (("default", DEFAULT_REWRITER), ("none", NoOpRewriter())):
                ref = None
                for ci, (k1, k2) in enumerate(((A, B), (B, A), (A, A), (B, B))):
                    v = vsets[ci]
                    res.states += 1
                    res.transitions += 1
                    res.evaluations += 1
                    res.validated += 1
                    case = {"family": "member-order:" + sname, "k": k, "rewriting": rname == "default", "history": 0, "policy": ["member-order", 0, 0], "orders": [k1 is A, k2 is A]}
                    try:
                        traces = [CallTrace(f, dict(a), r, None) for f, a, r in mk(k1, k2, v)]
                        text = build_module_stubs_from_traces(traces, k, rewriter=rw)["vfx.shapes"].render()
                    except Exception as e:  # noqa: BLE001
                        res.violate(Violation(ID, "exception", "member-order:" + sname, case, f"raised {e!r}"))
                        continue
                    bad, canon = canonical(text, mod)
                    if bad:
                        res.violate(Violation(ID, "order-dependence", "member-order:" + sname, case, f"stub unreadable: {bad}"))
                        continue
                    n = neutral(canon, v)
                    if ref is None:
                        ref = (n, text)
                    elif n != ref[0]:
                        res.violate(Violation(ID, "order-dependence", "union-member-order-inside-the-traces:" + sname, case, f"{sname}, rewriter {rname}, k={k}: traces whose inner unions are written in the orders ({'int,str' if k1 is A else 'str,int'} / {'int,str' if k2 is A else 'str,int'}) and in the orders (int,str / str,int) give different stubs (value classes renamed):\n--- one ---\n{ref[1][:300]}\n--- other ---\n{text[:300]}"))
    res.oblige("member-order-inside-traces", True)
    return res


DEFAULT_CFG_FAMILIES = ["union3", "generator-yields", "same-arguments-different-results", "same-qualname-two-modules"]


def default_config_stage(ctx: Ctx, fname: str) -> Result:
    """The SHIPPED configuration (monkeytype.config.DefaultConfig, database named by MT_DB_PATH) used the way one long-lived
    process uses it: every split of the rows into consecutive batches, batches logged alternately through the configuration's
    own logger and by another process with its own connection, `monkeytype stub` run after EVERY batch (whole module and, alternately, one function by `module:qualname`)
    - the stub after the last batch equals the stub of a database that received all rows in one batch."""
    import vfx.shapes as S
    from monkeytype import cli
    from monkeytype.config import DefaultConfig

    res = Result()
    fam = families()[fname]
    n = len(fam)
    traces = mk_traces(fam)
    old_env = os.environ.get("MT_DB_PATH")

    def stub_all() -> Tuple[Any, str, str]:
        outs, errs, rcs = [], [], []
        for mod in MODS:
            out, err = io.StringIO(), io.StringIO()
            try:
                rc = cli.main(["-c", "monkeytype.config:DefaultConfig()", "stub", mod], out, err)
            except Exception as e:  # noqa: BLE001
                rc = f"raised {e!r}"
            rcs.append(rc)
            outs.append(out.getvalue())
            errs.append(err.getvalue())
        return (0 if all(r == 0 for r in rcs) else rcs), SEP.join(outs), "".join(errs)

    try:
        ref = None
        for mask in [0] + list(range(1, 2 ** (n - 1))):
            batches: List[List[int]] = [[]]
            for j in range(n):
                batches[-1].append(j)
                if j < n - 1 and mask & (1 << j):
                    batches.append([])
            db = str(ctx.tmp / f"c14_default_{fname}_{mask}.sqlite3")
            if os.path.exists(db):
                os.unlink(db)
            os.environ["MT_DB_PATH"] = db
            res.states += 1
            case = {"family": "default-config:" + fname, "k": 0, "rewriting": True, "history": mask, "policy": ["default-config", len(batches), 0]}
            text_rc = None
            cfg = DefaultConfig()
            for bi, b in enumerate(batches):
                if bi % 2 == 1:
                    # every second batch arrives from ANOTHER process (a `monkeytype run` elsewhere) through a connection
                    # of its own, while this process goes on generating stubs
                    pid = os.fork()
                    if pid == 0:
                        try:
                            import sqlite3

                            from monkeytype.db.sqlite import SQLiteStore

                            conn = sqlite3.connect(db)
                            SQLiteStore(conn).add([traces[i] for i in b])
                            conn.close()
                            os._exit(0)
                        except BaseException:  # noqa: BLE001
                            os._exit(3)
                    _, status = os.waitpid(pid, 0)
                    if status != 0:
                        raise HarnessError(f"writer process failed (status {status})")
                else:
                    logger = cfg.trace_logger()   # (ONE config object per history, as get_default_config() hands out)
                    for i in b:
                        logger.log(traces[i])
                    logger.flush()
                res.transitions += 1
                if bi % 2 == 1:
                    f0 = fam[b[0]][0]
                    cli.main(["-c", "monkeytype.config:DefaultConfig()", "stub", f"{f0.__module__}:{f0.__qualname__}"], io.StringIO(), io.StringIO())
                text_rc = stub_all()
            res.evaluations += 1
            res.validated += 1
            rc, text, err = text_rc
            if rc != 0:
                res.violate(Violation(ID, "exception", "default-config:" + fname, case, f"batches {batches}: stub rc={rc} {err[-300:]}"))
                continue
            bad, canon = canonical(text, S)
            if bad:
                res.violate(Violation(ID, "syntax", "default-config:" + fname, case, f"batches {batches}: {bad}"))
                continue
            if ref is None:
                ref = canon
            elif canon != ref:
                res.violate(Violation(ID, "order-dependence", "default-config-batches-with-stubs-in-between:" + fname, case, f"rows logged in batches {batches} with `monkeytype stub` after every batch (one process, DefaultConfig) vs all rows in one batch: {diff_canon(ref, canon)}"))
            else:
                res.nontrivial_n += 1
            res.outcomes.add(hash(repr(canon)))
            os.unlink(db)
        res.oblige("default-config-batches", True)
    finally:
        if old_env is None:
            os.environ.pop("MT_DB_PATH", None)
        else:
            os.environ["MT_DB_PATH"] = old_env
    return res


def run(ctx: Ctx) -> Result:
    names = list(families())

    def work(ctx: Ctx, fname: str) -> Result:
        if fname.startswith("default-config:"):
            return default_config_stage(ctx, fname.split(":", 1)[1])
        return explore_family(ctx, fname)

    res = run_shards(ctx, work, names + ["default-config:" + f for f in DEFAULT_CFG_FAMILIES])
    res.obligations.setdefault("default-config-batches", False)
    res.merge(member_order_stage(ctx))
    res.obligations.setdefault("member-order-inside-traces", False)
    res.obligations.setdefault("seam-consulted", False)
    res.obligations.setdefault("fresh-interpreters", False)
    res.obligations.setdefault("StubIndexBuilder-splits", False)
    res.bounds.update({"families": len(names), "k": [0, 3], "hash_seeds": 3})
    return res


def replay(case: Dict[str, Any], ctx: Ctx) -> List[Violation]:
    if str(case.get("family", "")).startswith("default-config:"):
        return default_config_stage(ctx, case["family"].split(":", 1)[1]).violations
    if str(case.get("family", "")).startswith("member-order:"):
        return member_order_stage(ctx).violations
    r = explore_family(ctx, case["family"])
    want = (case["k"], case["rewriting"])
    return [v for v in r.violations if (v.case["k"], v.case["rewriting"]) == want] or r.violations
