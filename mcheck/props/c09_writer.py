"""Writer process for syscall-level crash injection (run under strace by c09): adds one batch to the store."""
import sqlite3
import sys

from mcheck.props.c09 import BATCHES, mktrace
from monkeytype.db.sqlite import SQLiteStore

path, b = sys.argv[1], int(sys.argv[2])
st = SQLiteStore.make_store(path)   # the way every Config opens its store
st.add([mktrace(s) for s in BATCHES[b]])
st.conn.close()
