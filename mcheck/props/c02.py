"""C02 — every completed call yields exactly one faithful call trace.

(a) call shapes (E1): function kinds x parameter lists x exit kinds x call styles, nestings, recursion, exception
    propagation, super(), wraps, closures, properties, twin functions in two modules.
(b) live-frame protocols (E3): BFS over driver-operation sequences {next, send, throw, close, drop} on 1..2 live
    generator/coroutine instances drawn from 8 templates; state = instance positions + the tracer's whole mutable state.
Oracle on every driver operation: the traces logged during it are exactly the frames the interpreter reports as completed
(sys.monitoring ground truth), in order, faithful; afterwards CallTracer.traces holds exactly the unfinished frames.
"""
from __future__ import annotations

import gc
import importlib
import inspect
import itertools
import sys
import typing
from pathlib import Path
from typing import Any, Callable, Dict, List, Optional, Tuple

from mcheck.core.par import run_shards
from mcheck.core.runner import Ctx, HarnessError, Result, Violation
from mcheck.gen import programs as P
from mcheck.gen import sigs as G
from mcheck.oracles import groundtruth as GT
from mcheck.oracles import types as O

ID = "C02"
RULE = (
    "(a) 11 function kinds x all parameter lists of 0..2 parameters (functions: 0..3; thorough one more each) x 4 exit kinds "
    "x call styles {all args, defaults used, by keyword} + nesting/recursion/propagation/yield-from/property/lambda scenarios "
    "+ twin modules in both call orders, for k in {0,3}; (b) BFS over all sequences of driver operations {next, send, "
    "throw, close, drop} on every single and every ordered pair of 10 generator/coroutine templates (incl. a types.coroutine generator and an async def awaiting it) to depth 6 (thorough 12: the frontier empties before that for every template combination); "
    "state = per-instance position + CallTracer.traces + cache + log length; transition = one driver operation judged "
    "against sys.monitoring ground truth; non-trivial = operation that completed or suspended a traced frame"
)
EXPLANATION = "explicit-state exploration of the real CallTracer driven by real CPython profile events, judged by an independent recorder"
ASSUMPTIONS = [
    "sys.monitoring event kinds of CPython 3.12 are the ground truth",
    "named parameters = positional-only, positional-or-keyword and keyword-only (not *args/**kwargs)",
    "nested functions, closures and lambdas are MAY-log (resolution through callers' locals depends on the call site): at most once, faithful",
]


class Collector:
    def __init__(self) -> None:
        self.traces: List[Any] = []
        self.flushed = 0

    def log(self, t: Any) -> None:
        self.traces.append(t)

    def flush(self) -> None:
        self.flushed += 1


class FaultyCollector(Collector):
    """A logger whose log() raises on chosen calls (the attempted trace still counts as what the tracer logged)."""

    def __init__(self, fail_at: set) -> None:
        super().__init__()
        self.fail_at = fail_at

    def log(self, t: Any) -> None:
        self.traces.append(t)
        if len(self.traces) in self.fail_at:
            raise RuntimeError(f"injected failure in log #{len(self.traces)}")


def drive_coro(c: Any) -> Any:
    try:
        c.send(None)
    except StopIteration as e:
        return e.value
    try:
        c.send("resumed")
    except StopIteration as e:
        return e.value
    c.close()
    return None


def run_expr(expr: str, kind: str, ns: Dict[str, Any]) -> None:
    try:
        v = eval(expr, ns)
        if kind == "coroutine":
            drive_coro(v)
        elif kind == "generator":
            list(v)
        elif kind == "closure":
            # the maker returned the nested function; call it in the driver (its maker's frame is gone)
            pass
    except Exception:  # noqa: BLE001
        pass


class Untypable:
    """Ground-truth marker: type collection itself fails on this value (e.g. a self-referential list). The property cannot
    say what the type of such a value is; a call that met one may stay unlogged, or be logged with Any at that position,
    but it must leave no per-call state and must not be described by a trace that silently omits the position."""


def typer_for(k: int) -> Callable[[Any], Any]:
    from monkeytype.typing import get_type

    def typer(v: Any) -> Any:
        try:
            return get_type(v, k)
        except Exception:  # noqa: BLE001
            return Untypable

    return typer


def untypable(r: Any) -> bool:
    return any(t is Untypable for t in r.args.values()) or r.ret is Untypable or any(t is Untypable for t in r.yields)


def _sub(t: Any) -> Any:
    return typing.Any if t is Untypable else t


def union_struct(types: List[Any]) -> Any:
    if not types:
        return None
    return O.struct(typing.Union[tuple(_sub(t) for t in types)])


def judge_op(res: Result, case: Dict[str, Any], rec: GT.Recorder, col: Collector, tracer: Any, n0: int, l0: int, may_codes: set, where: str) -> None:
    """Compare what was logged during one driver operation with what completed during it."""
    done = rec.completed_since(n0)
    logs = col.traces[l0:]
    res.transitions += 1
    res.evaluations += 1
    res.validated += 1
    if done or logs:
        res.nontrivial_n += 1

    def sig_for(r: Optional[GT.FrameRec]) -> str:
        if r is not None and r.exit == "unwind" and r.last_event == "throw" and (r.code.co_flags & (inspect.CO_GENERATOR | inspect.CO_COROUTINE)):
            if GT.covering_handlers(r.code, r.throw_offset) <= 1:
                return "gen-unwind-at-bare-yield"
        if r is not None and r.exit is None and r.last_event == "throw":
            return "gen-unwind-at-bare-yield"
        return "shape:" + (case.get("kind") or case.get("part", "?"))

    pos = 0
    for lg in logs:
        code = getattr(lg.func, "__code__", None)
        j = pos
        while j < len(done) and done[j].code is not code:
            j += 1
        if j >= len(done):
            res.violate(Violation(ID, "spurious-or-misattributed", sig_for(None), case, f"{where}: logged {lg!r} but no completed frame with that code at this point (completed: {[r.code.co_qualname for r in done]})"))
            return
        for skipped in done[pos:j]:
            if id(skipped.code) not in may_codes and not untypable(skipped):
                res.violate(Violation(ID, "missing", sig_for(skipped), case, f"{where}: frame of {skipped.code.co_qualname} completed ({skipped.exit}) but no trace was logged for it"))
        r = done[j]
        pos = j + 1
        exp_args = {n: O.struct(_sub(t)) for n, t in r.args.items()}
        got_args = {n: O.struct(t) for n, t in lg.arg_types.items()}
        if exp_args != got_args:
            res.violate(Violation(ID, "arg-types", sig_for(r), case, f"{where}: {r.code.co_qualname}: logged args { {n: O.show(t) for n, t in lg.arg_types.items()} }, at call start the named parameters were { {n: O.show(t) for n, t in r.args.items()} }"))
            return
        exp_ret = None if r.exit == "unwind" else O.struct(_sub(r.ret))
        got_ret = None if lg.return_type is None else O.struct(lg.return_type)
        if exp_ret != got_ret:
            res.violate(Violation(ID, "return-type", sig_for(r), case, f"{where}: {r.code.co_qualname}: logged return {lg.return_type!r}, frame exit was {r.exit} with {r.ret!r}"))
            return
        exp_y = union_struct(r.yields)
        got_y = None if lg.yield_type is None else O.struct(typing.Union[lg.yield_type])
        if exp_y != got_y:
            res.violate(Violation(ID, "yield-type", sig_for(r), case, f"{where}: {r.code.co_qualname}: logged yield {lg.yield_type!r}, yielded types were {[O.show(t) for t in r.yields]} (awaits: {r.awaits})"))
            return
    # everything completed after the last matched log must be MAY-log
    for r in done[pos:]:
        if id(r.code) not in may_codes and not untypable(r):
            res.violate(Violation(ID, "missing", sig_for(r), case, f"{where}: frame of {r.code.co_qualname} completed ({r.exit}) but no trace was logged for it"))
    # residue: the tracer keeps exactly the unfinished frames
    if tracer is not None:
        live = {id(r.frame): r for r in rec.live()}
        keys = list(tracer.traces)
        if all(hasattr(fr, "f_code") for fr in keys):
            for fr in keys:
                if id(fr) not in live:
                    r0 = rec.finished_ids.get(id(fr))
                    res.violate(Violation(ID, "residue", sig_for(r0), case, f"{where}: tracer still holds per-call state for finished frame {fr.f_code.co_qualname}"))
                    return
            for fid, r in live.items():
                if id(r.code) not in may_codes and not any(f is r.frame for f in keys):
                    res.violate(Violation(ID, "untracked-live-frame", sig_for(r), case, f"{where}: live frame {r.code.co_qualname} is not tracked"))
                    return
        else:
            # per-call state not keyed by frame objects: compare counts
            must_live = len([r for r in live.values() if id(r.code) not in may_codes])
            if not (must_live <= len(keys) <= len(live)):
                res.violate(Violation(ID, "residue", "shape:" + (case.get("kind") or case.get("part", "?")), case, f"{where}: tracer holds {len(keys)} per-call entries, {len(live)} frames are unfinished"))


def all_codes(code) -> List[Any]:
    out = [code]
    for c in code.co_consts:
        if hasattr(c, "co_code"):
            out += all_codes(c)
    return out


def may_code_ids(mod) -> set:
    """ids of code objects of nested functions / lambdas / closures (MAY-log): every code object nested in a function."""
    out = set()

    def fn_codes(obj):
        for v in vars(obj).values():
            f = v.__func__ if isinstance(v, (classmethod, staticmethod)) else (v.fget if isinstance(v, property) else v)
            if inspect.isfunction(f) and f.__module__ == mod.__name__:
                c = inspect.unwrap(f).__code__
                for inner in all_codes(c)[1:]:
                    out.add(id(inner))
                if f is not inspect.unwrap(f):
                    out.add(id(f.__code__))
            elif inspect.isclass(v) and v.__module__ == mod.__name__:
                fn_codes(v)

    fn_codes(mod)
    # module-level functions that cannot be named from the module namespace (a later definition took the name, e.g. the
    # implementations registered with functools.singledispatch under the name `_`): MAY-log
    for v in list(vars(mod).values()):
        reg = getattr(v, "registry", None)
        if reg is not None and hasattr(v, "dispatch"):
            for impl in reg.values():
                if inspect.isfunction(impl) and getattr(mod, impl.__name__, None) is not impl:
                    out.add(id(impl.__code__))
    # functions kept only inside a module-level container (a callback table): nothing names them
    for v in list(vars(mod).values()):
        if isinstance(v, (dict, list, tuple)):
            for f in (v.values() if isinstance(v, dict) else v):
                if inspect.isfunction(f) and getattr(mod, f.__name__, None) is not f:
                    out.add(id(f.__code__))
    # nested functions that ARE resolvable on the unchanged design: a self-recursive closure is named by its own frame
    must = set(getattr(P, "MUST_LOG_NESTED", []))
    if must:
        def walk(code):
            for c in code.co_consts:
                if hasattr(c, "co_code"):
                    if c.co_qualname in must:
                        out.discard(id(c))
                    walk(c)
        for v in list(vars(mod).values()):
            if inspect.isfunction(v) and v.__module__ == mod.__name__:
                walk(v.__code__)
    return out


# ------------------------------------------------------------------------------------------ (a) call shapes


def shape_lists(tier: str, kind: str):
    if kind == "function":
        return G.param_lists(3 if tier == "quick" else 4)
    return G.param_lists(2 if tier == "quick" else 3)


def part_shapes(ctx: Ctx) -> Result:
    jobs = []
    for kind in P.KINDS:
        ls = shape_lists(ctx.tier, kind)
        for i in range(0, len(ls), 40):
            jobs.append((kind, i, ls[i: i + 40]))

    def work(ctx: Ctx, job) -> Result:
        from monkeytype.tracing import trace_calls
        from monkeytype.typing import get_type

        kind, base, ls = job
        res = Result()
        d = ctx.tmp / f"c02_{kind}_{base}"
        d.mkdir(exist_ok=True)
        sys.path.insert(0, str(d))
        modname = f"c02s_{ctx.seed}_{kind}_{base}"
        src, calls = P.call_shape_module(modname, ls, [kind], base * 100)
        (d / f"{modname}.py").write_text(src)
        importlib.invalidate_caches()
        M = importlib.import_module(modname)
        files = {M.__file__}
        may = may_code_ids(M)
        ns = {"M": M}
        for k in (0, 3):
            col = Collector()
            rec = GT.Recorder(lambda code: code.co_filename in files, typer_for(k))
            with rec:
                with trace_calls(col, k, lambda code: code.co_filename in files):
                    tracer = sys.getprofile()
                    for ci, c in enumerate(calls):
                        n0, l0 = len(rec.order), len(col.traces)
                        if c["kind"] == "closure":
                            try:
                                f = eval(c["expr"].split("(")[0] + "(0)", ns)
                                args = c["expr"][c["expr"].index(")(") + 1:] if ")(" in c["expr"] else "()"
                            except Exception:  # noqa: BLE001
                                f = None
                            # M.fN_maker(0)(args...)
                        run_expr(c["expr"], c["kind"], ns)
                        res.states += 1
                        case = {"part": "a", "kind": kind, "base": base, "call": ci, "k": k, "tier": ctx.tier}
                        judge_op(res, case, rec, col, tracer, n0, l0, may, f"call {c['expr']} [{c['exit']}/{c['style']}]")
                        if len(col.traces) > l0:
                            res.oblige(f"a:{kind}:{c['exit']}", True)
                        if ci % 409 == 0 and k == 0:
                            res.sample({"part": "a", "call": c["expr"], "qualname": c["qual"], "exit": c["exit"]})
            if col.flushed != 1:
                res.violate(Violation(ID, "flush", "flush-count", {"part": "a", "kind": kind, "base": base}, f"flush called {col.flushed} times"))
        del sys.modules[modname]
        return res

    res = run_shards(ctx, work, jobs)
    for kind in P.KINDS:
        for ex in P.EXITS:
            if kind == "closure":
                continue
            res.obligations.setdefault(f"a:{kind}:{ex}", False)
    return res


def part_nesting(ctx: Ctx) -> Result:
    from monkeytype.tracing import trace_calls
    from monkeytype.typing import get_type

    res = Result()
    d = ctx.tmp / "c02_nest"
    d.mkdir(exist_ok=True)
    sys.path.insert(0, str(d))
    names = [f"c02n_{ctx.seed}_a", f"c02n_{ctx.seed}_b"]
    for nm in names:
        (d / f"{nm}.py").write_text(P.NESTING_SRC)   # twins: identical text in two modules
    importlib.invalidate_caches()
    mods = [importlib.import_module(nm) for nm in names]
    files = {m.__file__ for m in mods}
    may = may_code_ids(mods[0]) | may_code_ids(mods[1])
    for k in (0, 3):
        for order in ((0, 1), (1, 0)):
            col = Collector()
            rec = GT.Recorder(lambda code: code.co_filename in files, typer_for(k))
            with rec:
                with trace_calls(col, k, lambda code: code.co_filename in files):
                    tracer = sys.getprofile()
                    for mi in order:
                        for ci, expr in enumerate(P.NESTING_CALLS):
                            n0, l0 = len(rec.order), len(col.traces)
                            try:
                                eval(expr, {"M": mods[mi]})
                            except Exception:  # noqa: BLE001
                                pass
                            res.states += 1
                            case = {"part": "n", "order": list(order), "mod": mi, "call": ci, "k": k}
                            judge_op(res, case, rec, col, tracer, n0, l0, may, f"{names[mi]}: {expr}")
                            # attribution: every logged trace belongs to the module whose code ran
                            for lg in col.traces[l0:]:
                                if lg.func.__module__ != names[mi]:
                                    res.violate(Violation(ID, "spurious-or-misattributed", "twin-functions", case, f"{expr} ran in {names[mi]} but the trace is attributed to {lg.func.__module__}.{lg.func.__qualname__}"))
            if len([r for r in rec.all if r.exit is None]) == 0:
                res.oblige("n:no-live-frames-at-end", True)
    # nested tracing contexts: leaving the inner one must leave the outer one tracing
    for k in (0,):
        c_out, c_in = Collector(), Collector()
        with trace_calls(c_out, k, lambda code: code.co_filename in files):
            mods[0].leaf(1)
            with trace_calls(c_in, k, lambda code: code.co_filename in files):
                mods[0].leaf("a")
            mods[0].leaf(2.5)
            mods[0].top(1)
        res.states += 1
        res.transitions += 1
        res.evaluations += 1
        got = ([t.func.__qualname__ for t in c_out.traces], [t.func.__qualname__ for t in c_in.traces])
        want = (["leaf", "leaf", "leaf_raises", "mid_catches", "leaf", "top"], ["leaf"])
        if got != want:
            res.violate(Violation(ID, "missing", "nested-tracing-contexts", {"part": "n", "order": [0, 1], "mod": 0, "call": -1, "k": k}, f"nested trace_calls: outer logged {got[0]}, inner {got[1]}; expected {want}"))
    # two tracing sessions with a reload of the module in between: the second session must attribute calls to the
    # functions that exist then (nothing learnt in the first session may leak into the second)
    for k in (0,):
        c1, c2 = Collector(), Collector()
        with trace_calls(c1, k, lambda code: code.co_filename in files):
            mods[0].leaf(1)
            mods[0].Prop(1).value
        importlib.reload(mods[0])
        with trace_calls(c2, k, lambda code: code.co_filename in files):
            mods[0].leaf(1)
            mods[0].Prop(1).value
        res.states += 1
        res.transitions += 1
        res.evaluations += 1
        want_funcs = [mods[0].leaf, mods[0].Prop.__init__, mods[0].Prop.value.fget]
        got_funcs = [t.func for t in c2.traces]
        if len(got_funcs) != 3 or any(g is not w for g, w in zip(got_funcs, want_funcs)):
            res.violate(Violation(ID, "spurious-or-misattributed", "state-carried-between-sessions", {"part": "n", "order": [0, 1], "mod": 0, "call": -2, "k": k}, f"second tracing session after importlib.reload: traces attributed to {[getattr(g, '__qualname__', g) for g in got_funcs]} objects that are {'not ' if any(g is not w for g, w in zip(got_funcs, want_funcs)) else ''}the reloaded functions"))
        res.oblige("n:two-sessions-with-reload", True)
    # the public entry point with the configuration's OWN logger (Config.trace_logger is not overridden: a
    # CallTraceStoreLogger over the configured store): sessions 1..4 with ONE config object, then one with a second config
    # object; each session's completed calls reach the store exactly once, when the session ends
    for k in (0,):
        import monkeytype
        from monkeytype.config import Config
        from monkeytype.db.base import CallTraceStore

        class MemStore(CallTraceStore):
            def __init__(self):
                self.batches = []

            def add(self, traces):
                self.batches.append([t.func.__qualname__ for t in traces])

            def filter(self, module, qualname_prefix=None, limit=2000):
                return []

            @classmethod
            def make_store(cls, connection_string):
                return cls()

        from monkeytype.config import DefaultConfig

        class SessCfg(DefaultConfig):   # the shipped configuration with a store and a filter of the project's own
            def __init__(self):
                super().__init__()
                self.store = MemStore()

            def trace_store(self):
                return self.store

            def code_filter(self):
                return lambda code: code.co_filename in files

        cfgs = [SessCfg(), SessCfg()]
        plan = [(0, ["leaf"]), (0, ["leaf", "top"]), (0, []), (0, ["leaf"]), (1, ["leaf"])]
        for si, (ci_, fnames_) in enumerate(plan):
            cfg = cfgs[ci_]
            before = sum(len(b) for b in cfg.store.batches)
            with monkeytype.trace(cfg):
                for fname_ in fnames_:
                    getattr(mods[0], fname_)(1)
            got = [q for b in cfg.store.batches for q in b][before:]
            ref = Collector()   # the same calls under trace_calls with a plain collecting logger
            with trace_calls(ref, k, lambda code: code.co_filename in files):
                for fname_ in fnames_:
                    getattr(mods[0], fname_)(1)
            want = [t.func.__qualname__ for t in ref.traces]
            res.states += 1
            res.transitions += 1
            res.evaluations += 1
            if got != want:
                res.violate(Violation(ID, "missing" if len(got) < len(want) else "spurious-or-misattributed", "sessions-with-the-configured-logger", {"part": "n", "order": [0, 1], "mod": 0, "call": -4, "k": k}, f"session {si + 1} of monkeytype.trace(config) (config object #{ci_}, its own trace_logger): the store received {got} for the completed calls {want}"))
                break
        else:
            res.oblige("n:sessions-with-the-configured-logger", True)
    # a generator / coroutine that was started BEFORE the tracing block and is resumed and finished inside it: its call did
    # not start while tracing was active, so either nothing is logged for it or the trace describes the call as it started
    # (argument types of the call's arguments) - never a trace that begins in mid-life with rebound locals
    for k in (0,):
        M0 = mods[0]
        g1 = M0.gen_outer(2)
        next(g1)
        g2 = M0.gen_mutating([])
        next(g2)
        c_pre = Collector()
        with trace_calls(c_pre, k, lambda code: code.co_filename in files):
            r1 = list(g1)
            r2 = list(g2)
            M0.leaf(1)
        res.states += 1
        res.transitions += 3
        res.evaluations += 1
        names_logged = [t.func.__qualname__ for t in c_pre.traces]
        bad = [t for t in c_pre.traces if t.func.__qualname__ in ("gen_outer", "gen_mutating")]
        if bad or "leaf" not in names_logged:
            res.violate(Violation(ID, "arg-types", "generator-started-before-tracing", {"part": "n", "order": [0, 1], "mod": 0, "call": -3, "k": k}, f"generators advanced before the tracing block and finished inside it: logged {[(t.func.__qualname__, {n: O.show(x) for n, x in t.arg_types.items()}, t.yield_type and O.show(t.yield_type)) for t in bad]} (traces that start in mid-life); all logged: {names_logged}"))
        res.oblige("n:generator-started-before-tracing", True)
    # a logger that fails on its i-th call, for every i: the failure is the logger's, every call is still handed to it
    # exactly once and in completion order, and the tracer forgets the call all the same
    nlogs = 0
    may = may_code_ids(mods[0]) | may_code_ids(mods[1])   # (the module was reloaded above: its code objects are new)
    with trace_calls(c_probe := Collector(), 0, lambda code: code.co_filename in files):
        for expr in P.NESTING_CALLS:
            try:
                eval(expr, {"M": mods[0]})
            except Exception:  # noqa: BLE001
                pass
    nlogs = len(c_probe.traces)
    for fail in range(1, nlogs + 1):
        col = FaultyCollector({fail, fail + 3})
        rec = GT.Recorder(lambda code: code.co_filename in files, typer_for(0))
        with rec:
            with trace_calls(col, 0, lambda code: code.co_filename in files):
                tracer = sys.getprofile()
                for ci, expr in enumerate(P.NESTING_CALLS):
                    n0, l0 = len(rec.order), len(col.traces)
                    try:
                        eval(expr, {"M": mods[0]})
                    except Exception:  # noqa: BLE001
                        pass
                    res.states += 1
                    judge_op(res, {"part": "n", "order": [0, 1], "mod": 0, "call": ci, "k": 0, "log_fails_at": fail}, rec, col, tracer, n0, l0, may, f"{names[0]}: {expr} with log() raising on calls #{fail} and #{fail + 3}")
    res.oblige("n:logger-faults", nlogs > 10)
    res.oblige("n:twin-code-objects-equal", mods[0].leaf.__code__ == mods[1].leaf.__code__ and mods[0].leaf.__code__ is not mods[1].leaf.__code__)
    for nm in names:
        del sys.modules[nm]
    return res


# ------------------------------------------------------------------------------------------ (u) untypable values

UNT_SRC = '''
def u_ok(a):
    return a

def u_arg(a):
    return 1

def u_arg_raise(a):
    raise ValueError(1)

def u_ret(a):
    l = [a]
    l.append(l)
    return l

def u_ret_dict(a):
    d = {"k": a}
    d["self"] = d
    return d

def u_ret_deep(a):
    l = []
    for _ in range(5000):
        l = [l]
    return l

def u_caller(a):
    u_ret(a)
    return u_ok(a)

def u_gen(a):
    yield a
    yield u_ret(a)
    return u_ret(a)

class KU:
    def m(self, a):
        return 1

    @classmethod
    def cm(cls, a):
        return u_ret(a)

    @staticmethod
    def sm(a):
        t = ([],)
        t[0].append(t)
        return t

    @property
    def p(self):
        return u_ret_dict(1)
'''
CYC = "(lambda l: (l.append(l), l)[1])([])"
UNT_CALLS = [
    "M.u_ok(1)", f"M.u_arg({CYC})", "M.u_ok('s')", f"M.u_arg_raise({CYC})", "M.u_ret(1)", "M.u_ok(2.5)", "M.u_ret_dict(1)", "M.u_ret_deep(1)",
    "M.u_caller(1)", "list(M.u_gen(1))", f"M.KU().m({CYC})", "M.KU.cm(1)", "M.KU.sm(1)", "M.KU().p", f"M.u_ok({CYC})", "M.u_ok(None)",
]


def part_untypable(ctx: Ctx) -> Result:
    """Calls that meet a value on which type collection itself fails: every other call is logged as usual, the affected
    call is either absent or logged with Any at that position, and no per-call state stays behind - in every order of the
    scenario list (each rotation), for k in {0, 3}."""
    from monkeytype.tracing import trace_calls

    res = Result()
    d = ctx.tmp / "c02_unt"
    d.mkdir(exist_ok=True)
    if str(d) not in sys.path:
        sys.path.insert(0, str(d))
    modname = f"c02u_{ctx.seed}"
    (d / f"{modname}.py").write_text(UNT_SRC)
    importlib.invalidate_caches()
    M = importlib.import_module(modname)
    files = {M.__file__}
    may = may_code_ids(M)
    met = False
    for k in (0, 3):
        for rot in range(len(UNT_CALLS)):
            calls = UNT_CALLS[rot:] + UNT_CALLS[:rot]
            col = Collector()
            rec = GT.Recorder(lambda code: code.co_filename in files, typer_for(k))
            with rec:
                with trace_calls(col, k, lambda code: code.co_filename in files):
                    tracer = sys.getprofile()
                    for ci, expr in enumerate(calls):
                        n0, l0 = len(rec.order), len(col.traces)
                        try:
                            eval(expr, {"M": M})
                        except Exception:  # noqa: BLE001
                            pass
                        res.states += 1
                        met = met or any(untypable(r) for r in rec.completed_since(n0))
                        judge_op(res, {"part": "u", "k": k, "rot": rot, "call": ci}, rec, col, tracer, n0, l0, may, f"untypable-value scenario {expr} (after {calls[:ci][-2:]})")
            if col.flushed != 1:
                res.violate(Violation(ID, "flush", "flush-count", {"part": "u", "k": k, "rot": rot, "call": -1}, f"flush called {col.flushed} times"))
    res.oblige("u:type-collection-really-failed", met)
    del sys.modules[modname]
    return res


# ------------------------------------------------------------------------------------------ (b) live-frame protocols

PROTO_SRC = '''
import types


@types.coroutine
def tc_yield(a):
    r = yield a
    r2 = yield [a]
    return (r, r2)


async def c_over_tc(a):
    r = await tc_yield(a)
    return r


class Susp:
    def __await__(self):
        r = yield "suspended"
        return r

def g_plain(n):
    for i in range(n):
        yield i

def g_rebind(a):
    a = str(a)
    yield a
    a = [a]
    yield a
    return 1.5

def g_finally(a):
    try:
        yield a
        yield "x"
    finally:
        a = None

def g_except(a):
    try:
        yield a
    except ValueError:
        yield "caught"
    return None

def g_from(a):
    r = yield from g_plain(2)
    return r

def g_raise(a):
    yield a
    raise KeyError(a)

def g_send(a):
    got = yield a
    got2 = yield [got]
    return (got, got2)

async def c_await(a):
    r = await Susp()
    r2 = await Susp()
    return [r, r2]

async def c_rebind(a):
    a = str(a)
    r = await Susp()
    a = [a]
    r2 = await Susp()
    del a
    return r2

def g_unt_yield(a):
    yield a
    l = [a]
    l.append(l)
    yield l
    l = None
    yield "x"
    return 2.5

def g_unt_arg(a):
    a = 1
    yield a
    yield "x"
'''

TEMPLATES = [("g_plain", "2"), ("g_rebind", "5"), ("g_finally", "'f'"), ("g_except", "1"), ("g_from", "0"), ("g_raise", "'k'"), ("g_send", "None"), ("c_await", "1"), ("tc_yield", "1"), ("c_over_tc", "2"),
             # values on which type collection itself fails (a self-referential list): yielded in mid-life / passed as the argument
             ("c_rebind", "3"), ("g_unt_yield", "1"), ("g_unt_arg", "(lambda l: (l.append(l), l)[1])([])")]
OPS = ["next", "send", "throw", "close", "drop"]


class Proto:
    """Rebuilds a scenario by replaying a history of driver operations on fresh objects under a fresh tracer."""

    def __init__(self, ctx: Ctx, M, files, k: int = 0) -> None:
        self.M, self.files, self.k = M, files, k

    def replay(self, templates: Tuple[int, ...], hist: List[Tuple[int, str]], res: Optional[Result], case_base: Dict[str, Any]):
        from monkeytype.tracing import trace_calls
        from monkeytype.typing import get_type

        col = Collector()
        rec = GT.Recorder(lambda code: code.co_filename in self.files, typer_for(self.k))
        key = None
        with rec:
            with trace_calls(col, self.k, lambda code: code.co_filename in self.files):
                tracer = sys.getprofile()
                inst: List[Any] = [getattr(self.M, TEMPLATES[t][0])(eval(TEMPLATES[t][1])) for t in templates]
                for step, (i, op) in enumerate(hist):
                    n0, l0 = len(rec.order), len(col.traces)
                    g = inst[i]
                    try:
                        if op == "next":
                            g.send(None)
                        elif op == "send":
                            g.send("sent")
                        elif op == "throw":
                            g.throw(ValueError("thrown"))
                        elif op == "close":
                            g.close()
                        elif op == "drop":
                            inst[i] = None
                            del g
                            gc.collect()
                    except BaseException:  # noqa: BLE001
                        pass
                    g = None
                    if res is not None and step == len(hist) - 1:
                        case = dict(case_base, history=[list(h) for h in hist])
                        judge_op(res, case, rec, col, tracer, n0, l0, set(), f"templates {[TEMPLATES[t][0] for t in templates]} history {hist}")
                key = self.state_key(inst, tracer, col)
                live_two = len([r for r in rec.live()]) >= 2
                # finish: drop everything inside the tracing block so finalisation is traced too
                inst = []
                gc.collect()
        return key, live_two

    def state_key(self, inst, tracer, col) -> Tuple:
        st = []
        for g in inst:
            if g is None:
                st.append("dropped")
            elif inspect.iscoroutine(g):
                s = inspect.getcoroutinestate(g)
                st.append((s, g.cr_frame.f_lineno if g.cr_frame is not None else -1))
            else:
                s = inspect.getgeneratorstate(g)
                st.append((s, g.gi_frame.f_lineno if g.gi_frame is not None else -1))
        tr = sorted(("<abandoned>", (), "") if t is None else (t.func.__qualname__, tuple(sorted((n, repr(O.struct(x))) for n, x in t.arg_types.items())), repr(None if t.yield_type is None else O.struct(t.yield_type))) for t in tracer.traces.values())
        cache = sorted(repr(k) for k in getattr(tracer, "cache", {}))
        return (tuple(st), tuple(tr), len(cache), len(col.traces))


def enabled_ops(state_key: Tuple, ninst: int) -> List[Tuple[int, str]]:
    out = []
    for i in range(ninst):
        s = state_key[0][i]
        if s == "dropped":
            continue
        status = s[0]
        if status in ("GEN_CLOSED", "CORO_CLOSED"):
            out.append((i, "drop"))
            out.append((i, "next"))
            continue
        for op in OPS:
            out.append((i, op))
    return out


def part_protocols(ctx: Ctx) -> Result:
    depth = 6 if ctx.quick else 12
    combos: List[Tuple[int, ...]] = [(t,) for t in range(len(TEMPLATES))] + [(a, b) for a in range(len(TEMPLATES)) for b in range(len(TEMPLATES))]
    if not ctx.quick:
        combos += [(0, 4, 7), (1, 2, 3), (6, 6, 6)]

    def work(ctx: Ctx, templates: Tuple[int, ...]) -> Result:
        res = Result()
        d = ctx.tmp / "c02_proto"
        d.mkdir(exist_ok=True)
        if str(d) not in sys.path:
            sys.path.insert(0, str(d))
        modname = f"c02p_{ctx.seed}"
        f = d / f"{modname}.py"
        if not f.exists():
            f.write_text(PROTO_SRC)
        importlib.invalidate_caches()
        M = importlib.import_module(modname)
        pr = Proto(ctx, M, {M.__file__})
        case_base = {"part": "b", "templates": list(templates)}
        key0, _ = pr.replay(templates, [], None, case_base)
        seen = {key0}
        frontier: List[Tuple[List[Tuple[int, str]], Tuple]] = [([], key0)]
        level = 0
        d_eff = depth if len(templates) == 1 else (depth - 1 if len(templates) == 2 else depth - 2)
        while frontier and level < d_eff:
            nxt = []
            for hist, key in frontier:
                for ev in enabled_ops(key, len(templates)):
                    h2 = hist + [ev]
                    k2, live_two = pr.replay(templates, h2, res, case_base)
                    if live_two:
                        res.oblige("b:two-frames-live-simultaneously", True)
                    if k2 not in seen:
                        seen.add(k2)
                        nxt.append((h2, k2))
            frontier = nxt
            level += 1
        res.states += len(seen)
        res.outcomes |= {hash(s) for s in seen}
        res.count("b:combinations-whose-state-space-closed-within-the-bound" if not frontier else "b:combinations-cut-at-the-depth-bound")
        res.bounds["b_depth"] = depth
        res.sample({"part": "b", "templates": [TEMPLATES[t][0] for t in templates], "states": len(seen)})
        # determinism of replay: the same history gives the same key twice
        if frontier:
            h, kx = frontier[0]
            k_again, _ = pr.replay(templates, h, None, case_base)
            if k_again != kx:
                raise HarnessError(f"replay of {h} diverged")
        return res

    return run_shards(ctx, work, combos)


def run(ctx: Ctx) -> Result:
    res = Result()
    res.merge(part_shapes(ctx))
    res.merge(part_nesting(ctx))
    res.merge(part_untypable(ctx))
    res.merge(part_protocols(ctx))
    res.obligations.setdefault("b:two-frames-live-simultaneously", False)
    res.obligations.setdefault("n:twin-code-objects-equal", False)
    res.obligations.setdefault("n:two-sessions-with-reload", False)
    res.obligations.setdefault("n:logger-faults", False)
    res.obligations.setdefault("n:sessions-with-the-configured-logger", False)
    res.obligations.setdefault("n:generator-started-before-tracing", False)
    res.obligations.setdefault("u:type-collection-really-failed", False)
    return res


def replay(case: Dict[str, Any], ctx: Ctx) -> List[Violation]:
    res = Result()
    part = case["part"]
    if part == "b":
        d = ctx.tmp / "c02_proto"
        d.mkdir(exist_ok=True)
        sys.path.insert(0, str(d))
        modname = f"c02p_{ctx.seed}"
        (d / f"{modname}.py").write_text(PROTO_SRC)
        M = importlib.import_module(modname)
        pr = Proto(ctx, M, {M.__file__})
        pr.replay(tuple(case["templates"]), [tuple(h) for h in case["history"]], res, {"part": "b", "templates": case["templates"]})
        return res.violations
    if part == "n":
        return [v for v in part_nesting(ctx).violations]
    if part == "u":
        vs = part_untypable(ctx).violations
        return [v for v in vs if (v.case.get("k"), v.case.get("rot"), v.case.get("call")) == (case.get("k"), case.get("rot"), case.get("call"))] or vs
    # part a: rerun the module of that kind/base and keep violations of the same call
    ctx.tier = case.get("tier", "quick")
    ls = shape_lists(ctx.tier, case["kind"])
    ctx.workers = 1
    r = part_shapes_one(ctx, case["kind"], case["base"], ls[case["base"]: case["base"] + 40])
    return [v for v in r.violations if v.case.get("call") == case["call"] and v.case.get("k") == case["k"]] or r.violations


def part_shapes_one(ctx: Ctx, kind: str, base: int, ls) -> Result:
    from monkeytype.tracing import trace_calls
    from monkeytype.typing import get_type

    res = Result()
    d = ctx.tmp / f"c02_{kind}_{base}"
    d.mkdir(exist_ok=True)
    sys.path.insert(0, str(d))
    modname = f"c02s_{ctx.seed}_{kind}_{base}"
    src, calls = P.call_shape_module(modname, ls, [kind], base * 100)
    (d / f"{modname}.py").write_text(src)
    importlib.invalidate_caches()
    M = importlib.import_module(modname)
    files = {M.__file__}
    may = may_code_ids(M)
    for k in (0, 3):
        col = Collector()
        rec = GT.Recorder(lambda code: code.co_filename in files, typer_for(k))
        with rec:
            with trace_calls(col, k, lambda code: code.co_filename in files):
                tracer = sys.getprofile()
                for ci, c in enumerate(calls):
                    n0, l0 = len(rec.order), len(col.traces)
                    run_expr(c["expr"], c["kind"], {"M": M})
                    judge_op(res, {"part": "a", "kind": kind, "base": base, "call": ci, "k": k, "tier": ctx.tier}, rec, col, tracer, n0, l0, may, f"call {c['expr']}")
    return res
