"""Shared exploration for C04 / C05: multisets of grammar values x k, through get_type + shrink_types."""
from __future__ import annotations

import itertools
from typing import Any, Callable, Dict, Iterator, List, Sequence, Tuple

from mcheck.core.par import run_shards
from mcheck.core.runner import Ctx, Result, Violation
from mcheck.gen import values as V
from mcheck.oracles import types as O


def space(tier: str) -> Tuple[List[str], List[Tuple[str, Sequence[int]]]]:
    """-> (alphabet of value expressions, list of (family, index-tuple generators)) — all deterministic."""
    d1 = V.depth1()
    d2 = V.depth2(quick=(tier == "quick"))
    tr = V.triple_reps()
    alpha: List[str] = []
    idx: Dict[str, int] = {}

    def add(e: str) -> int:
        if e not in idx:
            idx[e] = len(alpha)
            alpha.append(e)
        return idx[e]

    i_d1 = [add(e) for e in d1]
    i_d2 = [add(e) for e in d2]
    i_tr = [add(e) for e in tr]
    fams: List[Tuple[str, Any]] = []
    fams.append(("single_d1", [(i,) for i in i_d1]))
    i_long = [add(e) for e in V.LONG_CONTAINERS]
    fams.append(("single_long", [(i,) for i in i_long] + [(i_long[0], i_d1[0]), (i_long[0], i_long[1])]))
    fams.append(("single_d2", [(i,) for i in i_d2]))
    fams.append(("pair_d1", itertools.combinations(i_d1, 2)))
    fams.append(("triple_reps", itertools.combinations(i_tr, 3)))
    if tier == "thorough":
        i_d3 = [add(e) for e in V.depth3()]
        fams.append(("single_d3", [(i,) for i in i_d3]))
        sub2 = i_d2[::5]
        fams.append(("pair_d2sub", itertools.combinations(sub2, 2)))
        fams.append(("pair_d1xd2", ((a, b) for a in i_d1[::3] for b in i_d2[::7])))
        sub1 = sorted(set(i_d1[::5] + i_tr))
        fams.append(("triple_d1sub", itertools.combinations(sub1, 3)))
        fams.append(("quad_reps", itertools.combinations(i_tr[::2], 4)))
    return alpha, fams


def all_cases(tier: str) -> Tuple[List[str], Iterator[Tuple[str, Tuple[int, ...]]]]:
    alpha, fams = space(tier)

    def gen():
        for name, it in fams:
            for t in it:
                yield name, tuple(t)

    return alpha, gen()


def arm_of(types: Sequence[Any], k: int) -> str:
    """Which shrink_types arm a multiset of per-value types selects (classified from the inputs only)."""
    cl = [O.classify(t) for t in types]
    if not types:
        return "empty"
    if all(c[0] == "atd" for c in cl):
        keys = set()
        for c in cl:
            keys |= set(c[1]) | set(c[2])
        return "all_td_oversize" if len(keys) > k else "all_td"
    s = {O.struct(t) for t in types}
    if len(s) == 1:
        return "all_equal"
    if all(c[0] == "generic" and c[1] is list and c[2] is not None for c in cl):
        return "all_lists"
    return "mixed"


def orderings(n: int) -> List[Tuple[int, ...]]:
    """Index sequences over positions 0..n-1 (position n+i = independent second copy of value i):
    every permutation, plus every single duplication placed first and last."""
    base = list(range(n))
    outs = [tuple(p) for p in itertools.permutations(base)] if n <= 4 else [tuple(base), tuple(reversed(base))]
    for i in range(n):
        outs.append(tuple(base + [n + i]))
        outs.append(tuple([n + i] + base))
        if n >= 2:
            outs.append(tuple([n + i] + list(reversed(base))))
    return outs


def run_inference(ctx: Ctx, prop: str, judge: Callable[..., None], ks: Sequence[int] = V.KS) -> Result:
    """judge(res, case, vals, types_by_pos, k, get_type, shrink_types) evaluates one (multiset, k)."""
    nshards = ctx.workers * 4

    def shard(ctx: Ctx, si: int) -> Result:
        from monkeytype.typing import get_type, shrink_types

        res = Result()
        alpha, cases = all_cases(ctx.tier)
        vals = [V.ev(e) for e in alpha]
        vals2 = [V.ev(e) for e in alpha]  # independent second copies (for duplication patterns)
        tcache: Dict[Tuple[int, int, int], Any] = {}

        def typ(i: int, k: int, copy: int) -> Any:
            key = (i, k, copy)
            if key not in tcache:
                try:
                    tcache[key] = ("ok", get_type((vals, vals2)[copy][i], max_typed_dict_size=k))
                except Exception as e:  # noqa: BLE001
                    tcache[key] = ("exc", repr(e))
            return tcache[key]

        for ci, (fam, tup) in enumerate(cases):
            if ci % nshards != si:
                continue
            res.states += 1
            res.count(f"cases[{fam}]")
            for k in ks:
                case = {"values": [alpha[i] for i in tup], "k": k, "family": fam}
                judge(res, case, [vals[i] for i in tup], lambda pos, k=k, tup=tup: typ(tup[pos % len(tup)], k, pos // len(tup)), k, get_type, shrink_types)
            if res.states % 997 == 1:
                res.sample({"values": [alpha[i] for i in tup], "family": fam})
        return res

    res = run_shards(ctx, shard, list(range(nshards)))
    res.bounds.update({"tier": ctx.tier, "k": list(ks)})
    return res


def replay_case(case: Dict[str, Any], judge: Callable[..., None]) -> List[Violation]:
    from monkeytype.typing import get_type, shrink_types

    res = Result()
    exprs = case["values"]
    vals = [V.ev(e) for e in exprs]
    vals2 = [V.ev(e) for e in exprs]
    k = case["k"]
    n = len(exprs)

    def typ(pos: int):
        try:
            return ("ok", get_type((vals, vals2)[pos // n][pos % n], max_typed_dict_size=k))
        except Exception as e:  # noqa: BLE001
            return ("exc", repr(e))

    judge(res, case, vals, typ, k, get_type, shrink_types)
    return res.violations
