"""C13 — existing source annotations are kept, omitted or overridden exactly as requested.
Engine E1: signatures x annotated subsets (5 annotation kinds) x traced subsets x 3 strategies x 5 result kinds x
function kinds (function / method / classmethod, receiver annotated or not), via the API and via the CLI flags."""
from __future__ import annotations

import importlib
import io
import itertools
import sys
from pathlib import Path
from typing import Any, Dict, Generator, Iterator, List, Optional, Tuple

from mcheck.core.par import run_shards
from mcheck.core.runner import VERIF, Ctx, Result, Violation
from mcheck.gen import sigs as G
from mcheck.oracles import stubeval as SE
from mcheck.oracles import types as O

ID = "C13"
RULE = (
    "parameter lists of 0..2 (thorough ..3) parameters of every kind/default (none, None, non-None) x every subset of "
    "{receiver, parameters, return} annotated in source with one of {class, generic, Optional, string, NewType} x every "
    "subset of parameters traced x {REPLICATE, OMIT, IGNORE} x result kinds {return, yield, yield+return, yield+None, "
    "exception only} x {function, method, classmethod, plain function and staticmethod whose first parameter is merely NAMED self/cls}; state = one stub of a 24..48-function module, transition = one "
    "position compared with the expectation table; CLI flags cross-checked against the API; non-trivial = position that is "
    "annotated in source or traced"
)
EXPLANATION = "exhaustive bounded enumeration of the annotated? x traced? x strategy matrix against the real stub builder"
ASSUMPTIONS = ["the IGNORE / annotated / untraced cell is left open by the property (source annotation or nothing accepted)", "a traced type on a None-default parameter may be shown as Optional[T]"]

ANN_KINDS = ["class", "generic", "optional", "string", "newtype", "rewritable", "pep585"]
ANN_SRC = {"class": "int", "generic": "List[int]", "optional": "Optional[int]", "string": "'int'", "newtype": "UserId", "rewritable": "Union[Dict[str, int], Dict[str, str]]", "pep585": "dict[str, list[int]]"}
RESULT_KINDS = ["ret", "yield", "yield+ret", "yield+none", "exc", "yield+ret-or-none"]
FKINDS = ["function", "method", "classmethod", "function_selfname", "static_clsname", "decorated"]
T_PARAM, T_RET, T_YIELD = str, bytes, float


class _FalsyMeta(type):
    def __len__(cls):
        return 0


class FalsyClass(metaclass=_FalsyMeta):
    """A perfectly good class that happens to be falsy (plugin-registry style metaclass with __len__)."""


def ann_obj(kind: str, mod) -> Any:
    from typing import Dict as _D
    from typing import Union as _U

    return {"class": int, "generic": List[int], "optional": Optional[int], "string": int, "newtype": mod.UserId, "rewritable": _U[_D[str, int], _D[str, str]], "pep585": dict[str, list[int]]}[kind]


def param_lists(tier: str) -> List[Tuple[G.Param, ...]]:
    pls = G.param_lists(2)
    if tier == "thorough":
        pls = pls + [pl for pl in G.param_lists(3) if len(pl) == 3][::3]
    return pls


def gen_module(pl: Tuple[G.Param, ...], akind: str) -> Tuple[str, List[Dict[str, Any]]]:
    """All annotated subsets x function kinds (x receiver annotated?) for one parameter list and annotation kind."""
    n = len(pl)
    names = G.SHORT[:n]
    lines = ["import functools", "from typing import Dict, List, NewType, Optional, Type, Union", "", "UserId = NewType('UserId', int)", f"_AKIND = {akind!r}", "",
             "def _deco(f):", "    @functools.wraps(f)", "    def wrapper(*args, **kwargs):", "        return f(*args, **kwargs)", "    return wrapper", ""]
    metas: List[Dict[str, Any]] = []
    cls_lines: List[str] = ["class C1:", "    pass", ""]
    fid = 0
    for fk in FKINDS:
        if fk in ("function_selfname", "static_clsname") and n == 0:
            continue
        base_names = names
        if fk == "function_selfname":
            names = ["self"] + list(base_names[1:])
        elif fk == "static_clsname":
            names = ["cls"] + list(base_names[1:])
        recvs = [("", False)] if fk in ("function", "function_selfname", "static_clsname", "decorated") else [("self" if fk == "method" else "cls", False), ("self" if fk == "method" else "cls", True)]
        for recv, recv_ann in recvs:
            for mask in range(2 ** (n + 1)):
                ann = {i: ANN_SRC[akind] for i in range(n) if mask & (1 << i)}
                ret_ann = bool(mask & (1 << n))
                r = recv
                if recv and recv_ann:
                    r = recv + (": 'C1'" if recv == "self" else ": Type['C1']")
                params = G.render_params(pl, names, r, ann)
                fname = f"f{fid}"
                fid += 1
                head = f"def {fname}({params})" + (f" -> {ANN_SRC[akind]}" if ret_ann else "") + ":"
                body = "    return None"
                if fk == "decorated":
                    # functools.wraps: the stub is about the real function, not about the wrapper's (*args, **kwargs)
                    lines += ["@_deco", head, body, ""]
                elif fk in ("function", "function_selfname"):
                    lines += [head, body, ""]
                else:
                    if fk == "classmethod":
                        cls_lines.append("    @classmethod")
                    elif fk == "static_clsname":
                        cls_lines.append("    @staticmethod")
                    cls_lines += ["    " + head, "    " + body, ""]
                metas.append({"name": fname, "fk": fk, "recv": recv, "recv_ann": recv_ann, "ann": set(ann), "ret_ann": ret_ann, "params": pl, "names": list(names)})
        names = base_names
    return "\n".join(lines + cls_lines) + "\n", metas


def live(mod, m):
    import inspect

    if m["fk"] == "decorated":
        return inspect.unwrap(getattr(mod, m["name"]))
    if m["fk"] in ("function", "function_selfname"):
        return getattr(mod, m["name"])

    raw = inspect.getattr_static(mod.C1, m["name"])
    return raw.__func__ if isinstance(raw, (classmethod, staticmethod)) else raw


def make_traces(mod, metas, traced_mask: int, rk: str):
    from monkeytype.tracing import CallTrace

    out = []
    for m in metas:
        arg_types = {nm: (T_PARAM if (i + traced_mask) % 3 else FalsyClass) for i, nm in enumerate(m["names"]) if traced_mask & (1 << i)}
        if m["recv"]:
            arg_types[m["recv"]] = mod.C1 if m["recv"] == "self" else Type_of(mod.C1)
        ret = {"ret": T_RET, "yield": None, "yield+ret": T_RET, "yield+none": O.NoneType, "exc": None, "yield+ret-or-none": T_RET}[rk]
        yld = None if rk in ("ret", "exc") else T_YIELD
        out.append(CallTrace(live(mod, m), arg_types, ret, yld))
        # calls that bound only ONE of the traced parameters (the others were left to their defaults or did not exist yet):
        # a position counts as traced when any call recorded it
        for nm in list(arg_types):
            if nm != m["recv"] and len(arg_types) > 1:
                out.append(CallTrace(live(mod, m), {nm: arg_types[nm]}, ret, yld))
        if rk == "yield+ret-or-none":
            # a second run of the same generator fell off the end
            out.append(CallTrace(live(mod, m), dict(arg_types), O.NoneType, T_YIELD))
        if rk != "exc":
            out.append(CallTrace(live(mod, m), dict(arg_types), None, None))   # the same call once ended with an exception
    return out


def Type_of(c):
    import typing

    return typing.Type[c]


def traced_return(rk: str) -> Any:
    return {"ret": T_RET, "yield": Iterator[T_YIELD], "yield+ret": Generator[T_YIELD, None, T_RET], "yield+none": Iterator[T_YIELD], "exc": None, "yield+ret-or-none": Generator[T_YIELD, None, Optional[T_RET]]}[rk]


def _is_opt(t) -> bool:
    k = O.classify(t)
    return k[0] == "union" and O.NoneType in k[1]


def accepted(strategy: str, annotated: bool, traced: bool, A: Any, T: Any, default_none: bool) -> Tuple[List[Any], str]:
    """-> (list of acceptable annotations, where None means 'no annotation'), rule name."""
    optA = A if (A is None or _is_opt(A) or not default_none) else Optional[A]
    optT = [T] if (T is None or not default_none or _is_opt(T)) else [T, Optional[T]]
    if strategy == "REPLICATE":
        if annotated:
            return [optA], "replicate-keeps-source-annotation"
        return (optT, "unannotated-gets-traced") if traced else ([None], "no-invented-annotation")
    if strategy == "OMIT":
        if annotated:
            return [None], "omit-drops-annotated"
        return (optT, "unannotated-gets-traced") if traced else ([None], "no-invented-annotation")
    # IGNORE
    if traced:
        return optT, "ignore-uses-traced"
    if annotated:
        return [None, A, optA], "open-cell"
    return [None], "no-invented-annotation"


def check_stub(text: str, mod, metas, strategy: str, traced_mask: int, rk: str, akind: str) -> List[Tuple[str, str, str]]:
    out: List[Tuple[str, str, str]] = []
    own = {n: v for n, v in vars(mod).items() if not n.startswith("__")}
    info = SE.parse(text, own)
    if info.syntax_error:
        return [("syntax", "syntax", info.syntax_error)]
    A = ann_obj(akind, mod)
    for m in metas:
        path = () if m["fk"] in ("function", "function_selfname", "decorated") else ("C1",)
        fis = info.funcs.get((path, m["name"]))
        if not fis:
            out.append(("missing", "function", f"{m['name']} missing"))
            continue
        fi = fis[0]
        positions: List[Tuple[str, bool, bool, Any, Any, bool]] = []
        for i, nm in enumerate(m["names"]):
            positions.append((nm, i in m["ann"], bool(traced_mask & (1 << i)), A, (T_PARAM if (i + traced_mask) % 3 else FalsyClass), m["params"][i][1] == "None"))
        tr = traced_return(rk)
        positions.append(("return", m["ret_ann"], tr is not None, A, tr, False))
        if m["recv"]:
            RA = mod.C1 if m["recv"] == "self" else Type_of(mod.C1)
            # receivers are never annotated from traces: treat as untraced
            positions.append((m["recv"], m["recv_ann"], False, RA, None, False))
        for nm, annotated, traced, Aobj, T, dnone in positions:
            ok, rule = accepted(strategy, annotated, traced, Aobj, T, dnone)
            present = fi.has_return if nm == "return" else nm in fi.ann
            got = (fi.returns if nm == "return" else fi.ann.get(nm)) if present else None
            src = (fi.returns_src if nm == "return" else fi.ann_src.get(nm)) if present else None
            if present:
                got = SE.normalize(got, info)
                if isinstance(got, SE.Err):
                    out.append(("unresolved", rule, f"{m['name']}.{nm}: {got.msg}"))
                    continue
            want_structs = [None if w is None else O.struct(w) for w in ok]
            got_struct = O.struct(got) if present else None
            if got_struct not in want_structs:
                pos = "receiver" if nm == m["recv"] and m["recv"] else ("return" if nm == "return" else "param")
                out.append((
                    "annotation", f"{strategy}:{rule}:{pos}",
                    f"{m['name']}({m['fk']}) {nm}: strategy={strategy} annotated={annotated} traced={traced} default_none={dnone} result={rk}: "
                    f"stub has {src!r}, acceptable: {[None if w is None else O.show(w) for w in ok]}",
                ))
    return out


def strategies():
    from monkeytype.stubs import ExistingAnnotationStrategy as S

    return {"REPLICATE": S.REPLICATE, "OMIT": S.OMIT, "IGNORE": S.IGNORE}


def run_module(res: Result, ctx: Ctx, mi: int, pl, akind: str, srcdir: Path, only: Optional[Tuple[str, int, str]] = None) -> None:
    from monkeytype.stubs import build_module_stubs_from_traces

    src, metas = gen_module(pl, akind)
    modname = f"c13m_{ctx.seed}_{mi}"
    (srcdir / f"{modname}.py").write_text(src)
    importlib.invalidate_caches()
    mod = importlib.import_module(modname)
    n = len(pl)
    S = strategies()
    combos = [(s, tm, rk) for s in S for tm in range(2 ** n) for rk in RESULT_KINDS]
    if only:
        combos = [only]
    for s, tm, rk in combos:
        res.states += 1
        case = {"module_index": mi, "strategy": s, "traced_mask": tm, "result": rk, "tier": ctx.tier}
        try:
            traces = make_traces(mod, metas, tm, rk)
            text = build_module_stubs_from_traces(traces, 0, existing_annotation_strategy=S[s])[modname].render()
        except Exception as e:  # noqa: BLE001
            res.violate(Violation(ID, "exception", type(e).__name__, case, f"raised {e!r}"))
            continue
        res.validated += 1
        res.evaluations += 1
        res.transitions += len(metas) * (n + 1)
        vs = check_stub(text, mod, metas, s, tm, rk, akind)
        for kind, sig, msg in vs[:3]:
            res.violate(Violation(ID, kind, sig, case, msg))
        if not vs:
            res.outcomes.add(hash((s, tm, rk, text)) if False else hash(text.replace(modname, "M")))
            res.nontrivial_n += 1 if (tm or n) else 0
            res.oblige(f"strategy:{s}", True)
            res.oblige(f"result:{rk}", True)
        if res.states % 3001 == 1:
            res.sample({"params": G.render_params(pl, G.SHORT[:n]), "annotation_kind": akind, "strategy": s, "traced_mask": tm, "result": rk, "stub_head": text[:300]})
    # the stub index polled while traces keep arriving (StubIndexBuilder as a logger): after the first poll saw calls that
    # all ended with an exception, later traces of the same functions must still reach the next poll
    if only is None and mi % 3 == 2:
        from monkeytype.stubs import StubIndexBuilder

        tm_full = (2 ** n) - 1
        for rk in RESULT_KINDS[:4]:
            res.states += 1
            res.transitions += 2
            res.evaluations += 1
            case = {"module_index": mi, "strategy": "REPLICATE", "traced_mask": tm_full, "result": rk, "tier": ctx.tier, "polled": True}
            try:
                sib = StubIndexBuilder(modname, 0)
                for t in make_traces(mod, metas, tm_full, "exc"):
                    sib.log(t)
                first = sib.get_stubs()[modname].render()
                for t in make_traces(mod, metas, tm_full, rk):
                    sib.log(t)
                text = sib.get_stubs()[modname].render()
            except Exception as e:  # noqa: BLE001
                res.violate(Violation(ID, "exception", "polled-index", case, f"StubIndexBuilder raised {e!r}"))
                continue
            for where, txt, rk_ in (("first poll", first, "exc"), ("second poll", text, rk)):
                for kind, sig, msg in check_stub(txt, mod, metas, "REPLICATE", tm_full, rk_, akind)[:2]:
                    res.violate(Violation(ID, kind, "polled-index:" + sig, case, f"StubIndexBuilder, {where}: " + msg))
        res.oblige("polled-stub-index", True)
    # CLI flags must select the same strategies (one combination per module)
    if only is None and (mi % 9 == 0 or (akind == "rewritable" and mi % 4 == 1)):
        cli_crosscheck(res, ctx, mod, modname, metas, n, mi, srcdir)
    del sys.modules[modname]


def cli_crosscheck(res: Result, ctx: Ctx, mod, modname: str, metas, n: int, mi: int, srcdir: Path) -> None:
    import mcfg
    from monkeytype import cli
    from monkeytype.db.sqlite import SQLiteStore
    from monkeytype.stubs import build_module_stubs_from_traces
    from monkeytype.typing import NoOpRewriter

    S = strategies()
    tm, rk = (2 ** n) - 1, RESULT_KINDS[mi % len(RESULT_KINDS)]
    db = str(srcdir / f"{modname}.sqlite3")
    mcfg.reset(db=db, rewriter="default" if (mi % 2 == 0 or mcfg_akind(metas, mod) == "rewritable") else NoOpRewriter())
    traces = make_traces(mod, metas, tm, rk)
    mcfg.CONFIG.trace_store().add(traces)
    for s, flags in (("REPLICATE", []), ("OMIT", ["--omit-existing-annotations"]), ("IGNORE", ["--ignore-existing-annotations"])):
        out, err = io.StringIO(), io.StringIO()
        res.transitions += 1
        res.evaluations += 1
        case = {"module_index": mi, "strategy": s, "traced_mask": tm, "result": rk, "tier": ctx.tier, "cli": True}
        try:
            rc = cli.main(["-c", "mcfg:fresh()", "stub", modname] + flags, out, err)
            want = build_module_stubs_from_traces(traces, 0, existing_annotation_strategy=S[s])[modname].render()
        except Exception as e:  # noqa: BLE001
            res.violate(Violation(ID, "exception", "cli", case, f"cli raised {e!r}"))
            continue
        vs = check_stub(out.getvalue(), mod, metas, s, tm, rk, mcfg_akind(metas, mod))
        for kind, sig, msg in vs[:2]:
            res.violate(Violation(ID, kind, "cli:" + sig, case, "via CLI " + " ".join(flags) + ": " + msg))
        if not vs:
            res.oblige(f"cli:{s}", True)


def mcfg_akind(metas, mod) -> str:
    return mod.__dict__.get("_AKIND", "class")


def all_modules(tier: str):
    return [(pl, ak) for pl in param_lists(tier) for ak in ANN_KINDS]


def reload_stage(ctx: Ctx) -> Result:
    """One process, one module, three stub generations with the SOURCE changed and the module reloaded in between
    (unannotated -> annotated -> unannotated again): every generation reflects the source as it is then."""
    import importlib as il

    from monkeytype.stubs import ExistingAnnotationStrategy as EAS
    from monkeytype.stubs import build_module_stubs_from_traces
    from monkeytype.tracing import CallTrace

    from mcheck.oracles import stubeval as SE

    res = Result()
    d = ctx.tmp / "c13_reload"
    d.mkdir(exist_ok=True)
    if str(d) not in sys.path:
        sys.path.insert(0, str(d))
    name = f"c13reload_{ctx.seed}"
    versions = [("plain", "def f(a, b=None):\n    return a\n"), ("annotated", "def f(a: int, b: float = None) -> bytes:\n    return a\n"), ("plain-again", "def f(a, b=None):\n    return a\n")]
    mod = None
    for vi, (label, src) in enumerate(versions):
        (d / f"{name}.py").write_text(src + f"# version {vi}\n" * (vi + 1))
        il.invalidate_caches()
        mod = il.import_module(name) if mod is None else il.reload(mod)
        for strat in (EAS.REPLICATE, EAS.OMIT, EAS.IGNORE):
            res.states += 1
            res.transitions += 3
            res.evaluations += 1
            res.validated += 1
            case = {"module_index": -5, "strategy": strat.name, "traced_mask": 3, "result": "ret", "tier": ctx.tier, "reload": label}
            try:
                text = build_module_stubs_from_traces([CallTrace(mod.f, {"a": str, "b": str}, str, None)], 0, existing_annotation_strategy=strat)[name].render()
            except Exception as e:  # noqa: BLE001
                res.violate(Violation(ID, "exception", "reload-stage", case, f"raised {e!r}"))
                continue
            info = SE.parse(text, {}, lenient_modules=[])
            fi = (info.funcs.get(((), "f")) or [None])[0]
            got = {k: (fi.ann_src.get(k) if fi else None) for k in ("a", "b")}
            got["return"] = fi.returns_src if fi and fi.has_return else None
            annotated = label == "annotated"
            if not annotated or strat is EAS.IGNORE:
                want = {"a": "str", "b": "Optional[str]", "return": "str"}
            elif strat is EAS.REPLICATE:
                want = {"a": "int", "b": "Optional[float]", "return": "bytes"}
            else:
                want = {"a": None, "b": None, "return": None}
            if got != want:
                res.violate(Violation(ID, "annotation", f"source-changed-and-reloaded:{strat.name}", case, f"source version '{label}' (generation {vi + 1} in this process), strategy {strat.name}: stub says {got}, expected {want}\n{text}"))
    res.oblige("reload-stage", True)
    sys.modules.pop(name, None)
    return res


DOTTED_ANNS = ["pkg.utils.C", "barfoo.Qux", "nest.Outer.Inner", "thing.thing", "pkg.typing.Union"]


def dotted_annotation_stage(ctx: Ctx) -> Result:
    """Source annotations written as DOTTED paths (string annotations, and plain ones under `from __future__ import
    annotations`) next to unannotated positions whose traced classes come from modules named like a component of such a
    path (utils vs pkg.utils, foo vs barfoo, typing vs pkg.typing, thing vs thing.thing): in the default mode the annotated
    positions keep their annotation text, whatever the traced classes of the other positions are."""
    import ast

    from monkeytype.stubs import ExistingAnnotationStrategy as EAS
    from monkeytype.stubs import build_module_stubs_from_traces
    from monkeytype.tracing import CallTrace

    collide = str(VERIF / "fixtures" / "collide")
    if collide not in sys.path:
        sys.path.insert(0, collide)
    import barfoo
    import foo
    import nest
    import pkg.typing
    import pkg.utils
    import thing
    import utils

    res = Result()
    d = ctx.tmp / "c13_dotted"
    d.mkdir(exist_ok=True)
    if str(d) not in sys.path:
        sys.path.insert(0, str(d))
    traced_classes = [utils.B, foo.Baz, thing.thing, nest.Outer, List[utils.A], Optional[foo.Baz], pkg.utils.D, int]
    for style in ("string", "postponed"):
        for ai, ann in enumerate(DOTTED_ANNS):
            q = (lambda t: repr(t)) if style == "string" else (lambda t: t)
            name = f"c13dot_{ctx.seed}_{style}_{ai}"
            src = ("from __future__ import annotations\n" if style == "postponed" else "") + "import barfoo, foo, nest, pkg.typing, pkg.utils, thing, utils\n\n\n"
            src += f"def f(a: {q(ann)}, b, c: {q(ann)} = None, d=None) -> {q(ann)}:\n    return a\n"
            (d / f"{name}.py").write_text(src)
            importlib.invalidate_caches()
            mod = importlib.import_module(name)
            for ti, T in enumerate(traced_classes):
                res.states += 1
                res.transitions += 3
                res.evaluations += 1
                res.validated += 1
                case = {"tier": ctx.tier, "module_index": -6, "dotted": [style, ai, ti]}
                try:
                    text = build_module_stubs_from_traces([CallTrace(mod.f, {"a": int, "b": T, "c": int, "d": T}, T, None)], 0, EAS.REPLICATE)[name].render()
                    fn = next(n for n in ast.parse(text).body if isinstance(n, ast.FunctionDef) and n.name == "f")
                except Exception as e:  # noqa: BLE001
                    res.violate(Violation(ID, "exception", "dotted-source-annotation", case, f"{style} annotation {ann}: raised {e!r}"))
                    continue
                imported_from = [n.module for n in ast.parse(text).body if isinstance(n, ast.ImportFrom) and n.module]
                args = {a.arg: (ast.unparse(a.annotation) if a.annotation is not None else None) for a in fn.args.args}
                got = {"a": args.get("a"), "c": args.get("c"), "return": ast.unparse(fn.returns) if fn.returns is not None else None}
                for pos, g in got.items():
                    bare = (g or "").replace("'", "").replace('"', "")
                    if pos == "c" and bare.startswith("Optional[") and bare.endswith("]"):
                        bare = bare[len("Optional["):-1]
                    # (the renderer writes names relative to the stub's `from M import ...` lines: a whole leading module
                    # path M that the stub imports from may be dropped - nothing else may change)
                    ok = bare == ann or any(ann == m + "." + bare for m in imported_from)
                    if not ok:
                        res.violate(Violation(ID, "annotation", "REPLICATE:dotted-source-annotation-kept:" + ("return" if pos == "return" else "param"), case, f"{style} source annotation {ann!r} at {pos}, another position traced as {O.show(T)}: the stub has {g!r}\n{text}"))
                        break
                else:
                    res.nontrivial_n += 1
            del sys.modules[name]
    res.oblige("dotted-annotation-stage", True)
    return res


def run(ctx: Ctx) -> Result:
    mods = all_modules(ctx.tier)
    nshards = ctx.workers * 2

    def shard(ctx: Ctx, si: int) -> Result:
        res = Result()
        srcdir = ctx.tmp / f"c13_{si}"
        srcdir.mkdir(exist_ok=True)
        sys.path.insert(0, str(srcdir))
        for mi in range(si, len(mods), nshards):
            run_module(res, ctx, mi, mods[mi][0], mods[mi][1], srcdir)
        return res

    res = run_shards(ctx, shard, list(range(nshards)))
    res.merge(reload_stage(ctx))
    res.merge(dotted_annotation_stage(ctx))
    res.obligations.setdefault("dotted-annotation-stage", False)
    res.obligations.setdefault("reload-stage", False)
    for s in ("REPLICATE", "OMIT", "IGNORE"):
        res.obligations.setdefault(f"strategy:{s}", False)
        res.obligations.setdefault(f"cli:{s}", False)
    for rk in RESULT_KINDS:
        res.obligations.setdefault(f"result:{rk}", False)
    res.obligations.setdefault("polled-stub-index", False)
    res.bounds.update({"param_lists": len(param_lists(ctx.tier)), "annotation_kinds": ANN_KINDS, "modules": len(mods)})
    return res


def replay(case: Dict[str, Any], ctx: Ctx) -> List[Violation]:
    res = Result()
    mods = all_modules(case["tier"])
    srcdir = ctx.tmp / "c13_replay"
    srcdir.mkdir(exist_ok=True)
    sys.path.insert(0, str(srcdir))
    ctx.tier = case["tier"]
    if case.get("module_index") == -6:
        return dotted_annotation_stage(ctx).violations
    if case.get("module_index") == -5:
        return [v for v in reload_stage(ctx).violations if v.case.get("reload") == case.get("reload") and v.case.get("strategy") == case.get("strategy")] or reload_stage(ctx).violations
    pl, ak = mods[case["module_index"]]
    if case.get("cli"):
        src, metas = gen_module(pl, ak)
        modname = f"c13m_{ctx.seed}_{case['module_index']}"
        (srcdir / f"{modname}.py").write_text(src)
        mod = importlib.import_module(modname)
        cli_crosscheck(res, ctx, mod, modname, metas, len(pl), case["module_index"], srcdir)
    elif case.get("polled"):
        run_module(res, ctx, case["module_index"], pl, ak, srcdir)
        return [v for v in res.violations if v.case.get("polled")]
    else:
        run_module(res, ctx, case["module_index"], pl, ak, srcdir, (case["strategy"], case["traced_mask"], case["result"]))
    return res.violations
