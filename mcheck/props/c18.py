"""C18 — sampling thins traces without distorting them.
Engine E2 (choice-point explorer, deviation-bounded, stateless): the sampling RNG is a seam the explorer answers;
programs x sample rates {None,1,2,3,10,100} x EVERY answer vector over {0, 1, N-1} (all vectors when a run draws <= 6
times, otherwise all vectors within 3 deviations of 'always sample' and of 'never sample'); for a one-call program
every answer r in range(N). Frequency is decided exactly (expectation over the RNG's answer space), not statistically."""
from __future__ import annotations

import importlib
import itertools
import sys
from typing import Any, Dict, List, Optional, Tuple

from mcheck.core.par import run_shards
from mcheck.core.runner import Ctx, HarnessError, Result, Violation
from mcheck.oracles import groundtruth as GT
from mcheck.oracles import types as O
from mcheck.props import c02

ID = "C18"
RULE = (
    "programs {one call, three calls, nested calls with a caught exception, recursion, generator rebinding its parameter over "
    "3 resumptions, yield-from, coroutine with two awaits, a mix, two interleaved generators, generators between plain calls, coroutines around a generator} x rates {None,1,2,3,10,100} x every RNG answer vector over "
    "{0,1,N-1} (complete up to 6 draws, else <= 3 deviations from all-sample and from never-sample), one-call program: "
    "every r in range(N); state = (program, rate, answer vector) execution, transition = one draw; oracle: logged traces are a "
    "faithful ordered subset of the ground-truth frames, no residue, rate None/1 = unsampled, exact expected traced "
    "fraction within 25% of 1/N; non-trivial = vector that skips a call another vector traces"
)
EXPLANATION = "stateless choice-point exploration of the real tracer with the RNG owned by the explorer"
ASSUMPTIONS = ["answers 1..N-1 are equivalent (checked for every r on the one-call program)", "the RNG is consulted through the `random` module attribute of monkeytype.tracing (calibrated on every run)"]

PROG_SRC = '''
class Susp:
    def __await__(self):
        r = yield "s"
        return r

def f(x):
    return [x]

def g(x, y=None):
    return None

def leaf_raises(x):
    raise KeyError(x)

def mid(x):
    try:
        return leaf_raises(x)
    except KeyError:
        return f(x)

def top(x):
    return (mid(x), g(x))

def rec(n):
    return 0 if n == 0 else rec(n - 1)

def gen_rebind(n):
    n = str(n)
    yield n
    n = [n]
    yield n
    n = None
    yield 1.5
    return "done"

def gen_inner(n):
    yield n
    yield [n]

def gen_outer(n):
    r = yield from gen_inner(n)
    return r

def gen_finally_(n):
    n = str(n)
    try:
        yield n
        yield [n]
    finally:
        n = None

def gen_catch(n):
    n = str(n)
    try:
        yield n
    except ValueError:
        n = [n]
        yield n
    n = None
    yield 1.5

async def agen(n):
    n = str(n)
    yield n
    r = await Susp()
    n = [n]
    yield n
    n = None

async def coro(a):
    r = await Susp()
    a = [a]
    r2 = await Susp()
    return (r, r2)
'''

PROGRAMS: List[Tuple[str, str, bool]] = [
    # (name, driver expression, plain = consists of fresh calls only)
    ("one-call", "M.f(1)", True),
    ("three-calls", "(M.f(1), M.f('a'), M.g([1], y=2))", True),
    ("nested", "M.top(1)", True),
    ("recursion", "M.rec(2)", True),
    ("generator-rebinding", "list(M.gen_rebind(5))", False),
    ("yield-from", "list(M.gen_outer(7))", False),
    ("coroutine", "DRIVE(M.coro(1))", False),
    ("mixed", "(M.top(1), list(M.gen_rebind(2)), M.rec(1))", False),
    ("two-generators-interleaved", "INTERLEAVE(M.gen_rebind(1), M.gen_inner(2))", False),
    ("generators-and-calls", "([list(M.gen_rebind(i)) for i in (1, 2)], list(M.gen_outer(7)), M.f(0))", False),
    ("async-generator", "ADRIVE(M.agen(5))", False),
    ("async-generator-and-calls", "(M.f(0), ADRIVE(M.agen(1)), M.f('a'))", False),
    ("generator-thrown-into", "THROW(M.gen_catch(5))", False),
    ("generator-closed-early", "(CLOSE(M.gen_finally_(3)), M.f(1))", False),
    ("coroutine-and-generator", "(DRIVE(M.coro(1)), list(M.gen_rebind('x')), DRIVE(M.coro([2])))", False),
    # a generator suspended at a bare yield and dropped: judged only for the answer vectors that did NOT sample it (when it
    # is sampled, the unchanged tree loses it and keeps its entry - open finding gen-unwind-at-bare-yield of C02)
    ("unsampled-generator-abandoned", "(DROP(M.gen_inner(7)), M.f(1))", False),
]
JUDGED_ONLY_WHEN_FIRST_CALL_UNSAMPLED = {"unsampled-generator-abandoned"}


def drop_suspended(g: Any) -> Any:
    v = next(g)
    del g
    return v
# thorough tier only: longer programs (complete enumeration of every answer vector up to 11 draws)
PROGRAMS_THOROUGH: List[Tuple[str, str, bool]] = [
    ("nine-calls", "[M.f(i) for i in (0, 'a', None)] + [M.g(1), M.top(2)]", True),
    ("ten-calls-recursive", "(M.rec(4), M.top(1))", True),
    ("three-generators", "(list(M.gen_rebind(1)), list(M.gen_outer(2)), list(M.gen_inner(3)), THROW(M.gen_catch(4)), M.f(5))", False),
    ("coroutines-generators-async", "(DRIVE(M.coro(1)), ADRIVE(M.agen(2)), list(M.gen_rebind(3)), INTERLEAVE(M.gen_rebind(4), M.gen_inner(5)), CLOSE(M.gen_finally_(6)))", False),
]
RATES = [None, 1, 2, 3, 10, 100]


class FakeRandom:
    """Stands in for the `random` module inside monkeytype.tracing; every draw is answered by the explorer."""

    def __init__(self) -> None:
        self.prefix: List[int] = []
        self.default_skip = False
        self.points: List[int] = []
        self.answers: List[int] = []

    def begin(self, prefix: List[int], default_skip: bool) -> None:
        self.prefix, self.default_skip, self.points, self.answers = list(prefix), default_skip, [], []

    def _choose(self, n: int) -> int:
        i = len(self.points)
        self.points.append(n)
        if i < len(self.prefix):
            a = self.prefix[i]
            if not (0 <= a < n):
                raise HarnessError(f"replayed answer {a} out of range({n}) at draw {i}: nondeterminism not owned")
        else:
            a = min(1, n - 1) if self.default_skip else 0
        self.answers.append(a)
        return a

    def Random(self, *a: Any, **kw: Any) -> Any:
        """The tracer may keep a private generator. An unseeded random.Random() is a source of randomness: it is this same
        explorer-owned object. A generator constructed with an explicit seed is a deterministic function of that seed
        (every tracing session replays the same stream), so it is NOT a choice point: the real seeded generator is handed
        out, the explorer sees no draws, and the frequency oracle reports that nothing random decides what is traced."""
        if (a and a[0] is not None) or kw.get("x") is not None:
            import random as _real

            return _real.Random(*a, **kw)
        return self

    def seed(self, *a: Any, **kw: Any) -> None:
        return None

    def randrange(self, start: int, stop: Optional[int] = None, step: int = 1) -> int:
        if stop is None:
            return self._choose(int(start))
        return start + step * self._choose(max(1, (stop - start + step - 1) // step))

    def randint(self, a: int, b: int) -> int:
        return a + self._choose(b - a + 1)

    def random(self) -> float:
        return self._choose(1000) / 1000.0

    def choice(self, seq):
        return seq[self._choose(len(seq))]

    def getrandbits(self, k: int) -> int:
        return self._choose(2 ** min(k, 10))

    def __getattr__(self, name: str):
        raise HarnessError(f"monkeytype.tracing used random.{name}, which the RNG seam does not own")


def interleave(a: Any, b: Any) -> int:
    n = 0
    its = [a, b]
    while its:
        for it in list(its):
            try:
                next(it)
                n += 1
            except StopIteration:
                its.remove(it)
    return n


def drive_async_gen(ag: Any) -> Any:
    """`async for` by hand: every __anext__ awaitable is driven with send() until it delivers a value or the end"""
    out = []
    it = ag.__aiter__()
    while True:
        step = it.__anext__()
        try:
            while True:
                step.send(None if not out or True else None)
        except StopIteration as e:
            out.append(e.value)
        except StopAsyncIteration:
            return out


def throw_into(g: Any) -> Any:
    """next, then an exception thrown in (the generator catches it and goes on), then run to exhaustion"""
    out = [next(g)]
    out.append(g.throw(ValueError("thrown")))
    out += list(g)
    return out


def close_early(g: Any) -> Any:
    v = next(g)
    g.close()
    return v


def drive_all(c: Any) -> Any:
    try:
        c.send(None)
        while True:
            c.send("resumed")
    except StopIteration as e:
        return e.value


class Everything:
    def __contains__(self, x) -> bool:
        return True


def run_once(M, files, expr: str, rate: Optional[int], fake: FakeRandom, prefix: List[int], default_skip: bool, k: int = 0):
    from monkeytype import tracing
    from monkeytype.typing import get_type

    col = c02.Collector()
    rec = GT.Recorder(lambda code: code.co_filename in files, lambda v: get_type(v, k))
    fake.begin(prefix, default_skip)
    old = tracing.random
    tracing.random = fake  # type: ignore[assignment]
    residue = -1
    try:
        with rec:
            with tracing.trace_calls(col, k, lambda code: code.co_filename in files, rate):
                tracer = sys.getprofile()
                try:
                    eval(expr, {"M": M, "DRIVE": drive_all, "INTERLEAVE": interleave, "THROW": throw_into, "CLOSE": close_early, "ADRIVE": drive_async_gen, "DROP": drop_suspended})
                except Exception:  # noqa: BLE001
                    pass
                residue = len(tracer.traces)
    finally:
        tracing.random = old  # type: ignore[assignment]
    return col, rec, list(fake.points), list(fake.answers), residue


def judge_run(res: Result, case: Dict[str, Any], col, rec, residue: int, rate, where: str) -> int:
    """Logged traces must be a faithful, ordered subset of the completed frames; returns number of logged traces."""
    done = rec.order
    pos = 0

    def facts(r) -> Tuple:
        return (
            tuple(sorted((n, repr(O.struct(t))) for n, t in r.args.items())),
            repr(c02.union_struct(r.yields)),
            repr(None if r.exit == "unwind" else O.struct(r.ret)),
        )

    def logged_facts(lg) -> Tuple:
        import typing

        return (
            tuple(sorted((n, repr(O.struct(t))) for n, t in lg.arg_types.items())),
            repr(None if lg.yield_type is None else O.struct(typing.Union[lg.yield_type])),
            repr(None if lg.return_type is None else O.struct(lg.return_type)),
        )

    for lg in col.traces:
        code = getattr(lg.func, "__code__", None)
        cands = [j for j in range(pos, len(done)) if done[j].code is code]
        if not cands:
            res.violate(Violation(ID, "spurious", "shape:" + case["program"], case, f"{where}: logged {lg!r} matches no completed call"))
            return len(col.traces)
        lf = logged_facts(lg)
        hit = next((j for j in cands if facts(done[j]) == lf), None)
        if hit is None:
            r = done[cands[0]]
            # the known defect: a frame whose START drew 'skip' and one of whose RESUMPTIONS drew 'sample' (the trace then
            # begins in mid-life). Draw i belongs to the i-th frame activation the interpreter reported; anything else - no
            # rate, every draw sampling, a frame sampled at its start and disturbed later - is a different failure
            ans = case.get("answers") if isinstance(case.get("answers"), list) else []
            started_late = False
            if case.get("rate") and case["rate"] >= 2 and len(ans) == len(rec.events):
                for j in cands:
                    mine = [a for a, ev in zip(ans, rec.events) if ev is done[j]]
                    if mine and mine[0] != 0 and any(a == 0 for a in mine[1:]):
                        started_late = True
            sig = "sampled-on-resumption" if started_late else "shape:" + case["program"]
            ef = facts(r)
            kind = "arg-types" if ef[0] != lf[0] else ("yield-type" if ef[1] != lf[1] else "return-type")
            res.violate(Violation(ID, kind, sig, case, f"{where}: {r.code.co_qualname}: logged (args, yield, return) = {lf} describes no completed call of it; the calls were {[facts(done[j]) for j in cands]}"))
            return len(col.traces)
        pos = hit + 1
    if residue != 0:
        res.violate(Violation(ID, "residue", "shape:" + case["program"], case, f"{where}: {residue} per-call entries left in the tracer after the program finished"))
    if rate in (None, 1) and len(col.traces) != len(done):
        res.violate(Violation(ID, "rate-1-or-none", "shape:" + case["program"], case, f"{where}: rate {rate} must trace every call: {len(col.traces)} traces for {len(done)} calls"))
    return len(col.traces)


def alternatives(n: int) -> List[int]:
    return sorted({0, min(1, n - 1), n - 1})


THOROUGH = [False]


def explore_program(res: Result, M, files, pi: int, rate, fake: FakeRandom) -> None:
    name, expr, plain = PROGRAMS[pi]
    partial = name in JUDGED_ONLY_WHEN_FIRST_CALL_UNSAMPLED
    if partial and (not rate or rate < 2):
        return
    # calibration: how many draws does the all-sample run make?
    col, rec, points, answers, residue = run_once(M, files, expr, rate, fake, [], False)
    ndraw = len(points)
    nframes = len(rec.order)
    if rate and rate >= 2 and ndraw == 0:
        # either the seam is lost or the tracer stopped drawing: in both cases every call was traced although 1/N was asked for
        res.violate(Violation(ID, "frequency", "no-draw-at-all", {"program": name, "pi": pi, "rate": rate, "answers": []}, f"{name} rate={rate}: the sampling RNG was never consulted and {len(col.traces)} of {nframes} calls were traced"))
        return
    if rate and rate >= 2 and ndraw > len(rec.events):
        # sampling decides once per call: more draws than the interpreter reported frame activations means decisions are
        # drawn ahead of (or apart from) the calls they are for - nothing to enumerate then, the draws are not per call
        res.violate(Violation(ID, "frequency", "draws-not-per-call", {"program": name, "pi": pi, "rate": rate, "answers": list(answers)}, f"{name} rate={rate}: {ndraw} sampling draws for {len(rec.events)} frame activations ({nframes} calls): decisions are not drawn per call"))
        return
    if rate and rate >= 2 and ndraw < nframes and plain:
        res.violate(Violation(ID, "frequency", "fewer-draws-than-calls", {"program": name, "pi": pi, "rate": rate, "answers": list(answers)}, f"{name} rate={rate}: {nframes} fresh calls but only {ndraw} sampling draws (some calls bypass sampling)"))
    if (not rate or rate == 1) and ndraw and rate is None:
        raise HarnessError("RNG consulted although no sample rate is set")
    full = ndraw <= (11 if THOROUGH[0] else 6)
    bound = ndraw if full else (6 if THOROUGH[0] else 3)
    seen_vectors = set()
    logged_counts = set()

    def explore(prefix: List[int], devs: int, default_skip: bool) -> None:
        col, rec, points, answers, residue = run_once(M, files, expr, rate, fake, prefix, default_skip)
        if answers[: len(prefix)] != prefix:
            raise HarnessError(f"replay diverged: {answers} vs prefix {prefix}")
        key = tuple(answers)
        first = key not in seen_vectors
        seen_vectors.add(key)
        if first and partial and (not answers or answers[0] == 0):
            first = False   # the first call was sampled: the open finding's territory, not judged here
        if first:
            res.states += 1
            res.evaluations += 1
            res.validated += 1
            res.transitions += len(points)
            case = {"program": name, "pi": pi, "rate": rate, "answers": list(answers)}
            n = judge_run(res, case, col, rec, residue, rate, f"{name} rate={rate} answers={answers}")
            logged_counts.add(n)
            res.outcomes.add((name, rate, n))
        for i in range(len(prefix), len(points)):
            default = min(1, points[i] - 1) if default_skip else 0
            for alt in alternatives(points[i]):
                if alt == default:
                    continue
                if devs + 1 > bound:
                    continue
                explore(list(answers[:i]) + [alt], devs + 1, default_skip)

    explore([], 0, False)
    if not full:
        explore([], 0, True)
    if len(logged_counts) > 1:
        res.oblige("some-vector-skips-a-call-another-traces", True)
        res.nontrivial_n += len(seen_vectors)
    res.bounds[f"draws[{name}@{rate}]"] = ndraw
    res.bounds[f"vectors[{name}@{rate}]"] = len(seen_vectors)
    if not full:
        res.caps.append(f"{name}@{rate}: {ndraw} draws > 6: vectors limited to <= 3 deviations from all-sample and never-sample") if False else None
    # exact expectation of the traced fraction over {0, non-zero} answers
    if rate and rate >= 2 and ndraw <= (14 if THOROUGH[0] else 10) and not partial:
        exp = 0.0
        total_p = 0.0

        def walk(prefix: List[int], p: float) -> None:
            nonlocal exp, total_p
            col, rec, points, answers, residue = run_once(M, files, expr, rate, fake, prefix, False)
            # extend deterministically: branch on the first undecided draw
            if len(points) > len(prefix):
                i = len(prefix)
                n = points[i]
                walk(prefix + [0], p * (1.0 / n))
                if n > 1:
                    walk(prefix + [1], p * ((n - 1.0) / n))
                return
            exp += p * len(col.traces)
            total_p += p
            res.transitions += 1

        walk([], 1.0)
        frac = exp / max(1, nframes)
        want = 1.0 / rate
        case = {"program": name, "pi": pi, "rate": rate, "answers": "expectation"}
        if abs(total_p - 1.0) > 1e-9:
            raise HarnessError(f"probabilities sum to {total_p}")
        if not (0.75 * want <= frac <= 1.25 * want):
            sig = "sampled-on-resumption" if not plain else "shape:" + name
            res.violate(Violation(ID, "frequency", sig, case, f"{name} rate={rate}: expected traced fraction {frac:.4f} of {nframes} calls, 1/N = {want:.4f}"))
        res.extra.setdefault("expected_fraction", {})[f"{name}@{rate}"] = round(frac, 5)
    # one-call program: every answer individually
    if name == "one-call" and rate and rate >= 2:
        for r_ in range(rate):
            col, rec, points, answers, residue = run_once(M, files, expr, rate, fake, [r_], False)
            res.transitions += 1
            res.evaluations += 1
            traced = len(col.traces)
            if (traced == 1) != (r_ == 0):
                res.violate(Violation(ID, "frequency", "per-answer", {"program": name, "pi": pi, "rate": rate, "answers": [r_]}, f"answer {r_} of range({points[0] if points else '?'}): traced={traced}"))
        res.bounds[f"per_answer[{rate}]"] = rate


def load(ctx: Ctx):
    d = ctx.tmp / "c18"
    d.mkdir(exist_ok=True)
    if str(d) not in sys.path:
        sys.path.insert(0, str(d))
    modname = f"c18p_{ctx.seed}"
    f = d / f"{modname}.py"
    if not f.exists():
        f.write_text(PROG_SRC)
    importlib.invalidate_caches()
    M = importlib.import_module(modname)
    return M, {M.__file__}


def sessions_and_cli(ctx: Ctx) -> Result:
    """(1) two consecutive tracing blocks that share one logger object, every ordered pair of rates: the second block
    obeys ITS rate; (2) `monkeytype run` with a Config that sets a sample rate: the rate reaches the tracer."""
    import io

    from monkeytype import tracing

    res = Result()
    M, files = load(ctx)
    fake = FakeRandom()
    expr = "(M.f(1), M.f('a'), M.g([1], y=2), M.f(2.5))"
    flt = lambda code: code.co_filename in files  # noqa: E731 - ONE filter object for all blocks (as a Config would hand out)
    for r1 in RATES:
        for r2 in RATES:
            col = c02.Collector()
            counts = []
            for rate, skip in ((r1, True), (r2, True)):
                fake.begin([], skip)           # every draw answers "skip"
                old = tracing.random
                tracing.random = fake  # type: ignore[assignment]
                n0 = len(col.traces)
                try:
                    with tracing.trace_calls(col, 0, flt, rate):
                        eval(expr, {"M": M})
                finally:
                    tracing.random = old  # type: ignore[assignment]
                counts.append(len(col.traces) - n0)
            res.states += 1
            res.transitions += 2
            res.evaluations += 1
            res.validated += 1
            want2 = 4 if r2 in (None, 1) else 0   # all draws answer skip (for rate 1 the only answer, 0, samples)
            if counts[1] != want2:
                res.violate(Violation(ID, "frequency", "rate-of-earlier-session-sticks", {"program": "sessions", "pi": -1, "rate": [r1, r2], "answers": "skip-all"}, f"block 1 with rate {r1}, block 2 with rate {r2} on the same logger, every draw answering 'skip': block 2 logged {counts[1]} of 4 calls, expected {want2}"))
    # a generator started in one tracing session and finished in the next one, every ordered pair of rates, every draw
    # answering 'sample': the second session logs nothing for it (its call did not start there)
    for r1 in RATES:
        for r2 in RATES:
            g = M.gen_rebind(5)
            c1, c2 = c02.Collector(), c02.Collector()
            old = tracing.random
            tracing.random = fake  # type: ignore[assignment]
            try:
                fake.begin([], False)
                with tracing.trace_calls(c1, 0, flt, r1):
                    next(g)
                fake.begin([], False)
                with tracing.trace_calls(c2, 0, flt, r2):
                    rest = list(g)
                    M.f(1)
            finally:
                tracing.random = old  # type: ignore[assignment]
            res.states += 1
            res.transitions += 2
            res.evaluations += 1
            res.validated += 1
            bad = [t for t in c2.traces if t.func.__qualname__ == "gen_rebind"]
            if bad or not any(t.func.__qualname__ == "f" for t in c2.traces):
                res.violate(Violation(ID, "arg-types", "generator-across-two-sessions", {"program": "sessions", "pi": -1, "rate": [r1, r2], "answers": "sample-all"}, f"gen_rebind(5) started in a session with rate {r1} and finished in a session with rate {r2} (every draw sampling): the second session logged {[(t.func.__qualname__, {n: O.show(x) for n, x in t.arg_types.items()}) for t in bad]} for it; all: {[t.func.__qualname__ for t in c2.traces]}"))
    res.oblige("sessions-sharing-a-logger", True)
    # CLI: monkeytype run with Config.sample_rate
    import mcfg
    from monkeytype import cli

    d = ctx.tmp / "c18cli"
    d.mkdir(exist_ok=True)
    script = d / "c18_script.py"
    modname = M.__name__
    script.write_text(f"import {modname} as M\nfor i in range(3):\n    M.f(i)\n    M.g([i])\n")
    for rate, skip, want_rows in ((None, True, True), (2, True, False), (2, False, True), (100, True, False)):
        db = str(d / f"run_{rate}_{skip}.sqlite3")
        mcfg.reset(db=db, filter=lambda code: code.co_filename in files, sample_rate=rate)
        fake.begin([], skip)
        old = tracing.random
        tracing.random = fake  # type: ignore[assignment]
        try:
            cli.main(["-c", "mcfg:fresh()", "run", str(script)], io.StringIO(), io.StringIO())
        finally:
            tracing.random = old  # type: ignore[assignment]
        st = mcfg.CONFIG.trace_store()
        nrows = sum(len(st.filter(m)) for m in st.list_modules())
        res.states += 1
        res.transitions += 1
        res.evaluations += 1
        res.validated += 1
        if (nrows > 0) != want_rows:
            res.violate(Violation(ID, "frequency", "cli-run-ignores-sample-rate", {"program": "cli-run", "pi": -2, "rate": rate, "answers": "skip-all" if skip else "sample-all"}, f"`monkeytype run` with Config.sample_rate()={rate} and every draw answering {'skip' if skip else 'sample'}: {nrows} rows stored"))
    res.oblige("cli-run-with-sample-rate", True)
    return res


def run(ctx: Ctx) -> Result:
    if ctx.tier == "thorough" and PROGRAMS_THOROUGH[0] not in PROGRAMS:
        PROGRAMS.extend(PROGRAMS_THOROUGH)
    jobs = [(pi, rate) for pi in range(len(PROGRAMS)) for rate in RATES]

    def work(ctx: Ctx, job) -> Result:
        res = Result()
        THOROUGH[0] = ctx.tier == "thorough"
        M, files = load(ctx)
        explore_program(res, M, files, job[0], job[1], FakeRandom())
        if job[1] == 3:
            res.sample({"program": PROGRAMS[job[0]][0], "driver": PROGRAMS[job[0]][1], "rate": job[1], "vectors": res.states})
        return res

    res = run_shards(ctx, work, jobs)
    res.merge(sessions_and_cli(ctx))
    res.obligations.setdefault("some-vector-skips-a-call-another-traces", False)
    res.obligations.setdefault("sessions-sharing-a-logger", False)
    res.obligations.setdefault("cli-run-with-sample-rate", False)
    res.bounds["complete_up_to_draws"] = 11 if ctx.tier == "thorough" else 6
    res.bounds["deviation_bound_beyond"] = 6 if ctx.tier == "thorough" else 3
    return res


def replay(case: Dict[str, Any], ctx: Ctx) -> List[Violation]:
    res = Result()
    M, files = load(ctx)
    fake = FakeRandom()
    if case.get("pi", 0) < 0:
        return sessions_and_cli(ctx).violations
    if case["answers"] == "expectation" or not case.get("answers"):
        explore_program(res, M, files, case["pi"], case["rate"], fake)
        return [v for v in res.violations if v.kind == "frequency"] or res.violations
    if case.get("pi", 0) >= len(PROGRAMS):
        PROGRAMS.extend(PROGRAMS_THOROUGH)
    name, expr, plain = PROGRAMS[case["pi"]]
    col, rec, points, answers, residue = run_once(M, files, expr, case["rate"], fake, list(case["answers"]), False)
    judge_run(res, case, col, rec, residue, case["rate"], f"{name} rate={case['rate']} answers={answers}")
    if name == "one-call" and len(case["answers"]) == 1 and case["rate"]:
        if (len(col.traces) == 1) != (case["answers"][0] == 0):
            res.violate(Violation(ID, "frequency", "per-answer", case, "per-answer mismatch"))
    return res.violations
