"""C03 — tracing never changes what the traced program does.
E4 differential (untraced vs traced run of the same workload, full observation record: hook journal, results,
exceptions, stdout) x E2 fault enumeration (every single and double fault in {log#1, log#2, log#3, flush}) x exits of the
traced block {return, exception} x pre-installed profiler {none, a recording profiler}."""
from __future__ import annotations

import contextlib
import importlib
import io
import os
import itertools
import sys
from typing import Any, Callable, Dict, List, Optional, Tuple

from mcheck.core.par import run_shards
from mcheck.core.runner import Ctx, HarnessError, Result, Violation

ID = "C03"
RULE = (
    "workloads = 16 tripwire kinds (finalisation journal, attribute hooks, __class__ override, lazy property, list/dict/set/tuple subclasses with "
    "protocol overrides, journaling __hash__/__eq__/__bool__/__repr__, metaclass checks, callable with hooks, poisoned "
    "variants that raise) x 17 positions (argument, second argument, return, yield, dict key/value, list/tuple/set element, "
    "method/static/class method argument, receiver, caller's local during nested-function lookup, module global during "
    "static-method lookup, global namesake, property return) x fault sets (all subsets of size <= 2 of {log#1, log#2, "
    "log#3, flush}) x block exit {return, exception} x pre-installed profiler {none, recording}; state = one paired run, "
    "transition = one compared observation; non-trivial = workload whose tripwire hooks fire in the untraced run or "
    "whose fault set is non-empty"
)
EXPLANATION = "exhaustive differential exploration of the real tracer with every small fault set"
ASSUMPTIONS = ["hook journal + results + exception types/messages + stdout is the observable behaviour", "fault sites are logger.log call i and logger.flush"]

WORK_SRC = '''
import vfx.trip as T

G = None          # module global (scanned when a static method is resolved)


def f(x):
    return 1


def f2(a, x):
    return a


def r(x):
    return x


def g(x):
    yield x
    yield 1


def rc(x):
    # returns a value on which type collection itself fails (self-referential list)
    d = x
    l = [1]
    l.append(l)
    return l


def gcy(x):
    d = x
    l = [1]
    l.append(l)
    yield l
    l = None
    yield 1


CALLBACKS = {"k": lambda x: 1}   # a function nothing names: not a module global, not an attribute, in no caller's locals


class K:
    def m(self, x):
        return 2

    @staticmethod
    def sm(x):
        return 3

    @classmethod
    def cm(cls, x):
        return 4

    @property
    def p(self):
        return self._v


class R:
    """a receiver that is itself a tripwire is built by the scenario"""


def caller_with_local(obj):
    loc = obj

    def inner(y):
        return y

    return inner(1)


def uses(x):
    # the program's own use of the object (same in both runs)
    try:
        n = len(x)
    except Exception:
        n = -1
    try:
        v = getattr(x, "v", None)
    except Exception:
        v = "raised"
    return (n, v is None)
'''

POSITIONS = [
    "arg", "arg2", "ret", "yield", "dictval", "dictkey", "list", "tuple", "set", "method", "static", "classm", "receiver",
    "caller_local", "global_scan", "global_namesake", "prop_ret", "uses", "program_swaps_profiler", "instance_attr_namesake", "uses_random",
    "ret_untypable", "yield_untypable", "arg_untypable", "unresolvable_callee",
]
FAULT_SITES = ["log1", "log2", "log3", "flush"]   # thorough adds log4 (see run)


def scenario(M, T, kind: str, pos: str) -> Callable[[], Any]:
    mk = T.KINDS[kind]

    def run() -> Any:
        v = run_inner()
        T.j("PROG", "after-workload")   # everything the workload dropped is finalised before this marker
        return v

    def run_inner() -> Any:
        obj = mk()
        if pos == "arg":
            return M.f(obj)
        if pos == "arg2":
            return M.f2(0, obj)
        if pos == "ret":
            return type(M.r(obj)).__name__
        if pos == "yield":
            return len(list(M.g(obj)))
        if pos == "dictval":
            return M.f({"k": obj})
        if pos == "dictkey":
            return M.f({obj: 1})
        if pos == "list":
            return M.f([obj, 1])
        if pos == "tuple":
            return M.f((obj, 1))
        if pos == "set":
            return M.f({obj})
        if pos == "method":
            return M.K().m(obj)
        if pos == "static":
            return M.K.sm(obj)
        if pos == "classm":
            return M.K.cm(obj)
        if pos == "receiver":
            # the tripwire is the receiver of a plain function stored on its class
            cls = type(obj) if kind != "METAC" else obj
            return M.f(obj)
        if pos == "caller_local":
            return M.caller_with_local(obj)
        if pos == "global_scan":
            M.G = obj
            try:
                return M.K.sm(1)
            finally:
                M.G = None
        if pos == "global_namesake":
            M.__dict__["m"] = obj
            try:
                return M.K().m(1)
            finally:
                del M.__dict__["m"]
        if pos == "prop_ret":
            k = M.K()
            k._v = obj
            return type(k.p).__name__
        if pos == "uses":
            return M.uses(obj)
        if pos == "unresolvable_callee":
            # the callee cannot be found by function lookup; its frame (whose parameter refers to the tripwire) must not
            # outlive the call all the same
            return M.CALLBACKS["k"](obj) + M.f(0)
        if pos == "ret_untypable":
            # type collection fails on the returned value; the callee's frame (whose local refers to the tripwire) must not
            # outlive the call
            v = M.rc(obj)
            n = len(v)
            v.clear()
            return n
        if pos == "yield_untypable":
            n = 0
            for v in M.gcy(obj):
                n += 1
                if isinstance(v, list):
                    v.clear()
            v = None
            return n
        if pos == "arg_untypable":
            l = [obj]
            l.append(l)
            try:
                return M.f(l) + M.f2(0, l)
            finally:
                l.clear()
        if pos == "instance_attr_namesake":
            # the receiver's instance dict holds the tripwire under the name of the method that is running
            k = M.K()
            k.__dict__["m"] = obj
            return M.K.m(k, 1)
        if pos == "uses_random":
            # a seeded simulation: its draws (and the generator state afterwards) are part of what the program computes
            import random as _r

            _r.seed(12345)
            a = [M.f(obj) + _r.randrange(1000) for _ in range(3)]
            M.f2(0, obj)
            return (tuple(a), _r.random(), hash(_r.getstate()) % 100000)
        if pos == "program_swaps_profiler":
            # the program installs and removes its own profiler inside the traced block
            import sys as _sys

            seen = []
            prev = _sys.getprofile()
            _sys.setprofile(lambda f, e, a: seen.append(e))
            M.f(obj)
            _sys.setprofile(None)
            return M.f(obj)
        raise ValueError(pos)

    return run


class FaultyLogger:
    def __init__(self, faults: Tuple[str, ...]) -> None:
        self.faults = faults
        self.logs = 0
        self.flushes = 0

    def log(self, trace: Any) -> None:
        self.logs += 1
        if f"log{self.logs}" in self.faults:
            raise RuntimeError(f"injected failure in log #{self.logs}")

    def flush(self) -> None:
        self.flushes += 1
        if "flush" in self.faults:
            raise RuntimeError("injected failure in flush")


def observe(T, thunk: Callable[[], Any], raise_in_block: bool) -> Dict[str, Any]:
    """Run the workload (inside whatever context the caller installed) and return its observation record."""
    T.JOURNAL.clear()
    out = io.StringIO()
    rec: Dict[str, Any] = {}
    with contextlib.redirect_stdout(out):
        try:
            v = thunk()
            rec["result"] = repr(v) if isinstance(v, (int, str, tuple, type(None))) else type(v).__name__
            if raise_in_block:
                raise KeyError("program's own exception")
        except BaseException as e:  # noqa: BLE001
            rec["exception"] = f"{type(e).__name__}: {e}"
    rec["stdout"] = out.getvalue()
    rec["journal"] = list(T.JOURNAL)
    return rec


def paired(M, T, files, kind: str, pos: str, faults: Tuple[str, ...], raise_in_block: bool, with_profiler: bool, sample_rate: Optional[int] = None) -> List[Tuple[str, str, str]]:
    from monkeytype.tracing import trace_calls

    problems: List[Tuple[str, str, str]] = []
    thunk = scenario(M, T, kind, pos)
    base = observe(T, thunk, raise_in_block)
    prof_calls: List[str] = []

    def recording_profiler(frame, event, arg):
        prof_calls.append(event)

    logger = FaultyLogger(faults)
    # a real log handler: contained failures are logged by MonkeyType, and formatting the record must not touch the
    # program's objects either
    import logging

    mt_logger = logging.getLogger("monkeytype")
    sink = logging.StreamHandler(io.StringIO())
    sink.setFormatter(logging.Formatter("%(levelname)s %(message)s"))
    mt_logger.addHandler(sink)
    old_level = mt_logger.level
    mt_logger.setLevel(logging.DEBUG)
    old = sys.getprofile()
    if with_profiler:
        sys.setprofile(recording_profiler)
    before = sys.getprofile()
    traced: Dict[str, Any] = {}
    escaped = None
    try:
        try:
            cm = trace_calls(logger, 0, lambda code: code.co_filename in files, sample_rate)
            if with_profiler and raise_in_block:
                # the context manager was created while one profiler was installed and is ENTERED under another one:
                # the profiler to put back is the one in place at entry
                def other_profiler(frame, event, arg):
                    prof_calls.append("other:" + event)

                sys.setprofile(other_profiler)
                before = sys.getprofile()
            # (with faults and no other profiler: the program runs with warnings turned into errors, as under `-W error` -
            # whatever MonkeyType reports about a contained failure must not become an exception in the program)
            import contextlib
            import warnings

            strict = warnings.catch_warnings() if (faults and not with_profiler) else contextlib.nullcontext()
            with strict:
                if faults and not with_profiler:
                    warnings.simplefilter("error")
                with cm:
                    traced = observe(T, thunk, False)
                    if raise_in_block:
                        raise KeyError("program's own exception")
        except KeyError as e:
            if not raise_in_block or "program's own exception" not in str(e):
                escaped = e
            else:
                traced["exception"] = f"{type(e).__name__}: {e.args[0]}"
        except BaseException as e:  # noqa: BLE001
            escaped = e
        after = sys.getprofile()
    finally:
        sys.setprofile(old)
        mt_logger.removeHandler(sink)
        mt_logger.setLevel(old_level)
    where = f"{kind}@{pos} faults={list(faults)} exit={'exception' if raise_in_block else 'return'} profiler={'recording' if with_profiler else 'none'}"
    tag = f"{kind}@{pos}"
    if escaped is not None:
        problems.append(("escaped-exception", ("flush" if "flush" in str(escaped) else "log" if "log #" in str(escaped) else tag), f"{where}: {type(escaped).__name__}: {escaped} reached the program"))
    if raise_in_block:
        base_cmp = dict(base)
    else:
        base_cmp = base
    for key in ("journal", "result", "stdout", "exception"):
        a, b = base_cmp.get(key), traced.get(key)
        if key == "exception" and raise_in_block:
            a = "KeyError: program's own exception" if a and "program's own" in a else a
        if a != b:
            extra = [x for x in (b or []) if x not in (a or [])] if key == "journal" else b
            sig = tag
            if key == "journal" and pos in ("global_namesake", "caller_local") and extra and all(("(__code__)" in x or "(__wrapped__)" in x) for x in extra):
                sig = "function-lookup-getattr:" + pos
            problems.append((f"{key}-differs", sig, f"{where}: {key} untraced {a!r} vs traced {b!r}" + (f" (hooks run by the tracer: {sorted(set(extra))})" if key == "journal" else "")))
    if after is not before:
        problems.append(("profiler-not-restored", "profiler", f"{where}: sys.getprofile() is {after!r} after the block, was {before!r}"))
    if logger.flushes != 1:
        problems.append(("flush-count", "flush", f"{where}: flush called {logger.flushes} times"))
    if sample_rate:
        problems = [(k, s_ + ":sampling", m + f" (sample_rate={sample_rate})") for k, s_, m in problems]
    return problems


def load(ctx: Ctx):
    import vfx.trip as T

    d = ctx.tmp / "c03"
    d.mkdir(exist_ok=True)
    if str(d) not in sys.path:
        sys.path.insert(0, str(d))
    modname = f"c03w_{ctx.seed}"
    f = d / f"{modname}.py"
    if not f.exists():
        f.write_text(WORK_SRC)
    importlib.invalidate_caches()
    M = importlib.import_module(modname)
    return M, T, {M.__file__}


THOROUGH = [False]


def fault_sets() -> List[Tuple[str, ...]]:
    base = [()] + [(a,) for a in FAULT_SITES] + list(itertools.combinations(FAULT_SITES, 2))
    if THOROUGH[0]:
        base += list(itertools.combinations(FAULT_SITES, 3)) + [tuple(FAULT_SITES)]
    return base


def cases() -> List[Tuple[str, str]]:
    import vfx.trip as T

    out = []
    for kind in T.KINDS:
        for pos in POSITIONS:
            if pos in ("dictkey", "set") and kind not in T.HASHABLE:
                continue
            out.append((kind, pos))
    return out


def run(ctx: Ctx) -> Result:
    THOROUGH[0] = ctx.tier == "thorough"
    cs = cases()
    nshards = ctx.workers

    def shard(ctx: Ctx, si: int) -> Result:
        res = Result()
        M, T, files = load(ctx)
        fs = fault_sets()
        for ci in range(si, len(cs), nshards):
            kind, pos = cs[ci]
            for faults in fs:
                for rib in (False, True):
                    for wp in (False, True):
                        res.states += 1
                        res.evaluations += 1
                        res.validated += 1
                        res.transitions += 4
                        case = {"kind": kind, "pos": pos, "faults": list(faults), "raise": rib, "profiler": wp}
                        try:
                            probs = paired(M, T, files, kind, pos, faults, rib, wp)
                        except Exception as e:  # noqa: BLE001
                            raise HarnessError(f"paired run crashed for {case}: {e!r}")
                        for k, sig, msg in probs:
                            res.violate(Violation(ID, k, sig, case, msg))
                        if pos == "uses_random" and not faults:
                            for rate in (2, 10):
                                res.states += 1
                                res.transitions += 4
                                for k, sig, msg in paired(M, T, files, kind, pos, faults, rib, wp, rate):
                                    res.violate(Violation(ID, k, sig, dict(case, sample_rate=rate), msg))
                        if faults or True:
                            res.nontrivial_n += 1
            # vacuity guards: the hooks of this kind do fire when the PROGRAM uses the object
            if pos == "uses":
                T.JOURNAL.clear()
                M.uses(T.KINDS[kind]())
                if T.JOURNAL:
                    res.oblige(f"hooks-fire:{kind}", True)
            if ci % 37 == 0:
                res.sample({"tripwire": kind, "position": pos, "fault_sets": len(fs)})
        return res

    res = run_shards(ctx, shard, list(range(nshards)))
    res.merge(cli_differential(ctx))
    res.merge(filter_fault_stage(ctx))
    res.merge(store_logger_stage(ctx))
    res.merge(lifetime_stage(ctx))
    res.obligations.setdefault("lifetime-after-sessions", False)
    res.obligations.setdefault("shipped-store-logger", False)
    res.obligations.setdefault("code-filter-faults", False)
    res.obligations.setdefault("cli-run-differential", False)
    for kind in ("LST", "DCT", "SET", "TUP", "GA", "GAR"):
        res.obligations.setdefault(f"hooks-fire:{kind}", False)
    res.bounds.update({"tripwire_kinds": 16, "positions": len(POSITIONS), "fault_sets": len(fault_sets()), "exits": 2, "profilers": 2})
    return res


def filter_fault_stage(ctx: Ctx) -> Result:
    """The code filter is the first thing the tracer consults, on every call and return event. (1) The SHIPPED default filter
    on a function whose file name lies under a symlink loop (pathlib's resolve() raises RuntimeError for it); (2) a user filter
    that raises at its i-th consultation, every i of a three-call workload, alone and in pairs. In every case the workload
    returns what it returns untraced, nothing is raised, the previous profiler is back and the logger was flushed once."""
    from monkeytype.config import default_code_filter
    from monkeytype.tracing import trace_calls

    res = Result()
    d = ctx.tmp / "c03_filter"
    d.mkdir(exist_ok=True)
    loop = d / "loop"
    if not os.path.islink(loop):
        os.symlink("loop", loop)
    ns: Dict[str, Any] = {"__name__": "c03_looped"}
    exec(compile("def inner(x):\n    return [x]\n\n\ndef work(x):\n    return (inner(x), inner(str(x)))\n", str(loop / "m.py"), "exec"), ns)
    want = ns["work"](1)

    class Lg:
        def __init__(self):
            self.flushed = 0
            self.n = 0

        def log(self, t):
            self.n += 1

        def flush(self):
            self.flushed += 1

    def attempt(label: str, flt, case: Dict[str, Any]) -> None:
        res.states += 1
        res.evaluations += 1
        res.validated += 1
        res.transitions += 4
        lg = Lg()
        before = sys.getprofile()
        got: Any = None
        try:
            with trace_calls(lg, 0, flt):
                got = ns["work"](1)
        except BaseException as e:  # noqa: BLE001
            res.violate(Violation(ID, "exception-differs", "code-filter-failure-reaches-the-program", case, f"{label}: the traced workload raised {e!r}; untraced it returns {want!r}"))
            sys.setprofile(before)
            return
        if got != want:
            res.violate(Violation(ID, "result-differs", "code-filter-failure-reaches-the-program", case, f"{label}: traced result {got!r}, untraced {want!r}"))
        if sys.getprofile() is not before:
            res.violate(Violation(ID, "profiler", "code-filter-failure:profiler-not-restored", case, f"{label}: profiler after the block is {sys.getprofile()!r}"))
            sys.setprofile(before)
        if lg.flushed != 1:
            res.violate(Violation(ID, "flush", "code-filter-failure:flush-count", case, f"{label}: logger flushed {lg.flushed} times"))
        res.nontrivial_n += 1

    old = os.environ.pop("MONKEYTYPE_TRACE_MODULES", None)
    try:
        attempt("shipped default filter, file name under a symlink loop", default_code_filter, {"kind": "FILTER", "pos": "symlink-loop", "faults": [], "raise": False, "profiler": False, "filter_stage": True})
    finally:
        if old is not None:
            os.environ["MONKEYTYPE_TRACE_MODULES"] = old
    # a counting run first: how often is the filter consulted for this workload?
    count = {"n": 0}

    def counting(code):
        count["n"] += 1
        return True

    with trace_calls(Lg(), 0, counting):
        ns["work"](1)
    total = count["n"]
    if total < 6:
        raise HarnessError(f"filter consulted only {total} times for three calls")
    sets = [(i,) for i in range(1, total + 1)] + [(i, j) for i in range(1, total + 1) for j in range(i + 1, total + 1)]
    for fs in sets:
        seen = {"n": 0}

        def failing(code, fs=fs, seen=seen):
            seen["n"] += 1
            if seen["n"] in fs:
                raise RuntimeError(f"injected filter failure at consultation {seen['n']}")
            return True

        attempt(f"user filter raising at consultations {list(fs)} of {total}", failing, {"kind": "FILTER", "pos": "user-filter", "faults": list(fs), "raise": False, "profiler": False, "filter_stage": True})
    res.oblige("code-filter-faults", True)
    return res


def lifetime_stage(ctx: Ctx) -> Result:
    """What the program drops is released as it is without tracing: a traced closure (and a traced method's instance)
    that own an object with a finaliser are created, called and dropped inside a helper frame, in 1..3 successive tracing
    sessions; after each session (and a collection) the finalisers have run exactly as they do untraced. The logger keeps
    nothing (a CallTrace refers to its function)."""
    import gc

    from monkeytype.tracing import trace_calls

    res = Result()
    d = ctx.tmp / "c03_lifetime"
    d.mkdir(exist_ok=True)
    fname = str(d / "lt.py")
    ns: Dict[str, Any] = {"__name__": "c03_lifetime"}
    src = (
        "JOURNAL = []\n\n\nclass Res:\n    def __init__(self, tag):\n        self.tag = tag\n\n    def __del__(self):\n        JOURNAL.append('del ' + self.tag)\n\n\n"
        "def make(tag):\n    res = Res(tag)\n\n    def closure(x):\n        return (x, res.tag)\n\n    return closure\n\n\n"
        "class Holder:\n    def __init__(self, tag):\n        self.res = Res(tag)\n\n    def get(self, x):\n        return (x, self.res.tag)\n\n\n"
        "def helper(i):\n    c = make('closure%d' % i)\n    h = Holder('holder%d' % i)\n    return [c(1), h.get(2)]\n"
    )
    exec(compile(src, fname, "exec"), ns)

    class Drop:
        def log(self, t):
            pass

        def flush(self):
            pass

    def run(traced: bool, sessions: int) -> List[Any]:
        ns["JOURNAL"].clear()
        out: List[Any] = []
        for i in range(sessions):
            if traced:
                with trace_calls(Drop(), 0, lambda code: code.co_filename == fname):
                    out.append(ns["helper"](i))
            else:
                out.append(ns["helper"](i))
            gc.collect()
            out.append(sorted(ns["JOURNAL"]))
        return out

    for sessions in (1, 2, 3):
        res.states += 1
        res.evaluations += 1
        res.validated += 1
        res.transitions += 2 * sessions
        want = run(False, sessions)
        got = run(True, sessions)
        case = {"kind": "LIFETIME", "pos": "closure+instance", "faults": [], "raise": False, "profiler": False, "lifetime": True, "sessions": sessions}
        if got != want:
            res.violate(Violation(ID, "journal-differs", "lifetime:finalisers-after-the-session", case, f"{sessions} tracing session(s), objects dropped inside a helper frame, gc.collect() after each session: results and finaliser journal {got!r}; untraced {want!r}"))
        else:
            res.nontrivial_n += 1
    if not any("del closure0" in str(x) for x in run(False, 1)):
        raise HarnessError("lifetime stage is vacuous: the finaliser does not run untraced")
    res.oblige("lifetime-after-sessions", True)
    return res


def store_logger_stage(ctx: Ctx) -> Result:
    """The SHIPPED logger (CallTraceStoreLogger over an in-memory store) instead of the fault-injecting one: calls whose
    arguments are instances of classes with a journaling METACLASS (__eq__, __hash__, __instancecheck__ on the class objects)
    and of classes with journaling __eq__ / __hash__ themselves - the same function called again and again, with equal and
    with different classes. Between the calls and at flush time nothing may compare, hash or inspect the program's classes."""
    from monkeytype.db.base import CallTraceStore, CallTraceStoreLogger
    from monkeytype.tracing import trace_calls

    res = Result()
    journal: List[str] = []

    class Meta(type):
        def __eq__(cls, other):
            journal.append(f"Meta.__eq__({cls.__name__})")
            return cls is other

        def __hash__(cls):
            journal.append(f"Meta.__hash__({cls.__name__})")
            return id(cls) >> 4

        def __instancecheck__(cls, obj):
            journal.append(f"Meta.__instancecheck__({cls.__name__})")
            return type.__instancecheck__(cls, obj)

    ns: Dict[str, Any] = {"__name__": "c03_storelogger", "Meta": Meta}
    d = ctx.tmp / "c03_storelogger"
    d.mkdir(exist_ok=True)
    fname = str(d / "sl.py")
    exec(compile("class A(metaclass=Meta):\n    pass\n\n\nclass B(metaclass=Meta):\n    pass\n\n\ndef f(x, y=None):\n    return x\n\n\ndef work():\n    a, b = A(), B()\n    return [type(v).__name__ for v in (f(a), f(b), f(a), f(a, b), f(a, b), f(b, a))]\n", fname, "exec"), ns)

    class Mem(CallTraceStore):
        def __init__(self):
            self.n = 0

        def add(self, traces):
            self.n += len(list(traces))

        def filter(self, module, qualname_prefix=None, limit=2000):
            return []

        @classmethod
        def make_store(cls, connection_string):
            return cls()

    journal.clear()
    want = ns["work"]()
    base_journal = list(journal)
    for k in (0, 3):
        journal.clear()
        store = Mem()
        res.states += 1
        res.evaluations += 1
        res.validated += 1
        res.transitions += 6
        case = {"kind": "STORELOGGER", "pos": "metaclass", "faults": [], "raise": False, "profiler": False, "store_logger": True, "k": k}
        try:
            with trace_calls(CallTraceStoreLogger(store), k, lambda code: code.co_filename == fname):
                got = ns["work"]()
        except BaseException as e:  # noqa: BLE001
            res.violate(Violation(ID, "escaped-exception", "store-logger", case, f"traced workload raised {e!r}"))
            continue
        extra = [j for j in journal if j not in base_journal] if journal != base_journal else []
        if got != want or extra:
            res.violate(Violation(ID, "journal-differs", "store-logger:metaclass-hooks", case, f"six calls logged through CallTraceStoreLogger: result {got!r} (untraced {want!r}); hooks of the program's metaclass run by MonkeyType: {sorted(set(extra))}"))
        elif store.n != 7:
            res.violate(Violation(ID, "result-differs", "store-logger:count", case, f"seven completed calls (six of f, one of work), the store received {store.n} traces"))
        else:
            res.nontrivial_n += 1
    res.oblige("shipped-store-logger", True)
    return res


CLI_PROG = '''
import os
import pickle
import sys


class Rec:
    def __init__(self, v):
        self.v = v


def work(x):
    return [x]


print("name", __name__)
print("argv0", os.path.basename(sys.argv[0]), sys.argv[1:])
print("main-is-me", sys.modules["__main__"].__dict__.get("work") is work)
print("pickled", pickle.loads(pickle.dumps(Rec(3))).v)
print("work", work(1), file=sys.stderr if "--to-stderr" in sys.argv else sys.stdout)
# what the interpreter-wide state looks like to the program (tracing must not have rearranged it)
import datetime, gc, logging, signal, sqlite3
_c = sqlite3.connect(":memory:")
_c.execute("create table t (at, n)")
_c.execute("insert into t values (?, ?)", (datetime.datetime(2020, 1, 2, 3, 4, 5), 1))
_c.execute("insert into t values (?, ?)", (datetime.date(2020, 1, 2), 2))
print("sqlite-datetime", _c.execute("select at from t order by n").fetchall())
print("sqlite-adapters", sorted(k[0].__name__ for k in sqlite3.adapters), sorted(sqlite3.converters))
print("state", sys.getrecursionlimit(), gc.isenabled(), sys.excepthook is sys.__excepthook__, signal.getsignal(signal.SIGINT) is signal.default_int_handler,
      logging.getLogger().level, len(logging.getLogger().handlers), sys.getswitchinterval(), sys.displayhook is sys.__displayhook__)
# the process environment as the program and its children see it, working directory, file-creation mask
import subprocess
import hashlib
_DIG = "import os, hashlib; e = sorted((k, v) for k, v in os.environ.items() if k != 'C03_TRACE'); print([k for k, _ in e], hashlib.sha256(repr(e).encode()).hexdigest()[:16])"
exec(_DIG.replace("print(", "print('environ', "))
print("child-environ", subprocess.run([sys.executable, "-c", _DIG], capture_output=True, text=True).stdout)
_um = os.umask(0); os.umask(_um)
print("cwd", os.getcwd(), "umask", _um, "files", sorted(f for f in os.listdir(".") if not f.startswith("monkeytype.sqlite3") and f != "__pycache__"))
# the program's own logging configuration (first basicConfig wins: nobody may have configured the root logger before)
logging.basicConfig(stream=sys.stdout, format="LOG %(levelname)s %(name)s %(message)s", level=logging.WARNING)
logging.getLogger("app").debug("debug record (must stay hidden)")
logging.getLogger("app").warning("warning record")
if "--fail" in sys.argv:
    raise SystemExit(3)
'''

API_PROG = '''
import contextlib
import os
import sys
import warnings


def work(x):
    return [x]


def noisy():
    warnings.warn("once per location", UserWarning)


def session():
    if os.environ.get("C03_TRACE") == "1":
        import monkeytype

        return monkeytype.trace()
    return contextlib.nullcontext()


with warnings.catch_warnings(record=True) as seen:
    warnings.simplefilter("default")
    noisy()
    with session():
        work(1)
        noisy()
    noisy()
    with session():
        work("a")
    noisy()
print("warnings shown", len(seen))
print("filters", len(warnings.filters))
import gc, logging, sqlite3
print("state", sys.getrecursionlimit(), gc.isenabled(), logging.getLogger().level, len(logging.getLogger().handlers), sorted(k[0].__name__ for k in sqlite3.adapters), sys.getprofile())
import subprocess
_DIG = "import os, hashlib; e = sorted((k, v) for k, v in os.environ.items() if k != 'C03_TRACE'); print([k for k, _ in e], hashlib.sha256(repr(e).encode()).hexdigest()[:16])"
exec(_DIG.replace("print(", "print('environ', "))
print("child-environ", subprocess.run([sys.executable, "-c", _DIG], capture_output=True, text=True).stdout)
_um = os.umask(0); os.umask(_um)
print("cwd", os.getcwd(), "umask", _um)
'''


def cli_differential(ctx: Ctx) -> Result:
    """The program as the interpreter runs it (`python prog.py args`, `python -m prog args`) against the same program under
    `monkeytype run` / `monkeytype run -m`, in fresh interpreters: same standard output, same exit status."""
    import subprocess

    res = Result()
    d = ctx.tmp / "c03cli"
    d.mkdir(exist_ok=True)
    name = f"c03prog_{ctx.seed}"
    (d / f"{name}.py").write_text(CLI_PROG)
    env = dict(os.environ)
    env["PYTHONPATH"] = str(d) + os.pathsep + env.get("PYTHONPATH", "")
    py = [sys.executable, "-W", "ignore"]
    for style in ("script", "module"):
        for args in (["a", "b"], ["--fail"], []):
            plain = py + ([f"{name}.py"] if style == "script" else ["-m", name]) + args
            verbose = ["-v"] if args == ["a", "b"] else []   # one of the three argument lists also runs with the CLI's -v
            traced = py + ["-m", "monkeytype"] + verbose + ["run"] + ([f"{name}.py"] if style == "script" else ["-m", name]) + args
            a = subprocess.run(plain, cwd=str(d), env=env, capture_output=True, text=True)
            b = subprocess.run(traced, cwd=str(d), env=env, capture_output=True, text=True)
            res.states += 1
            res.evaluations += 1
            res.validated += 1
            res.transitions += 2
            res.nontrivial_n += 1
            case = {"kind": "CLI", "pos": style, "faults": args, "raise": False, "profiler": False, "cli": True}
            if "name __main__" not in a.stdout:
                raise HarnessError(f"baseline program did not run: {a.stdout!r} {a.stderr[-300:]!r}")
            if a.stdout != b.stdout:
                res.violate(Violation(ID, "stdout-differs", f"cli-run:{style}", case, f"`{' '.join(plain[3:])}` prints {a.stdout!r}; under `monkeytype run{' -m' if style == 'module' else ''}` it prints {b.stdout!r} (stderr tail {b.stderr[-200:]!r})"))
            if a.returncode != b.returncode:
                res.violate(Violation(ID, "exception-differs", f"cli-run:{style}", case, f"exit status {a.returncode} untraced, {b.returncode} under monkeytype run (stderr tail {b.stderr[-200:]!r})"))
    # the tracing API used in mid-program with the default configuration (real store logger, SQLite file in the cwd):
    # the same script with the sessions replaced by no-ops must print the same
    (d / f"{name}_api.py").write_text(API_PROG)
    outs = []
    for on in ("0", "1"):
        r = subprocess.run(py + [f"{name}_api.py"], cwd=str(d), env=dict(env, C03_TRACE=on), capture_output=True, text=True)
        outs.append(r)
    res.states += 1
    res.evaluations += 1
    res.validated += 1
    res.transitions += 2
    res.nontrivial_n += 1
    case = {"kind": "CLI", "pos": "api", "faults": [], "raise": False, "profiler": False, "cli": True}
    if "warnings shown" not in outs[0].stdout:
        raise HarnessError(f"API baseline program did not run: {outs[0].stdout!r} {outs[0].stderr[-300:]!r}")
    if outs[0].stdout != outs[1].stdout or outs[0].returncode != outs[1].returncode:
        res.violate(Violation(ID, "stdout-differs", "api-sessions-in-mid-program", case, f"script with two monkeytype.trace() sessions prints {outs[1].stdout!r} (exit {outs[1].returncode}); with the sessions replaced by no-ops {outs[0].stdout!r} (exit {outs[0].returncode}); stderr tail {outs[1].stderr[-200:]!r}"))
    res.oblige("cli-run-differential", True)
    return res


def replay(case: Dict[str, Any], ctx: Ctx) -> List[Violation]:
    if case.get("filter_stage"):
        return filter_fault_stage(ctx).violations
    if case.get("store_logger"):
        return store_logger_stage(ctx).violations
    if case.get("lifetime"):
        return lifetime_stage(ctx).violations
    if case.get("cli"):
        return cli_differential(ctx).violations
    M, T, files = load(ctx)
    probs = paired(M, T, files, case["kind"], case["pos"], tuple(case["faults"]), case["raise"], case["profiler"], case.get("sample_rate"))
    return [Violation(ID, k, sig, case, msg) for k, sig, msg in probs]
