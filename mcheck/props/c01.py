"""C01 — emitted annotations admit every value seen at runtime (run -> store -> stub).
E1+E4 over the full pipeline: generated target modules (functions, methods, classmethods, generators, generators with a
return value, coroutines that really suspend, functions with truthful source annotations) x call histories of 1..2
grammar values x max_typed_dict_size in {0,1,2,3,10} x rewriter in {none, each shipped rewriter, default chain} x CLI
flag in {default, --ignore-existing-annotations, --omit-existing-annotations, --disable-type-rewriting}.
The real path is driven end to end: monkeytype.trace(config) -> CallTraceStoreLogger -> SQLiteStore file ->
cli.main(['stub', module]); the stub TEXT is evaluated with the names it provides and every recorded value must be a
member of the annotation of its position."""
from __future__ import annotations

import importlib
import io
import itertools
import os
import sys
from pathlib import Path
from typing import Any, Dict, List, Optional, Tuple

from mcheck.core.par import run_shards
from mcheck.core.runner import Ctx, HarnessError, Result, Violation
from mcheck.gen import values as V
from mcheck.oracles import stubeval as SE
from mcheck.oracles import types as O

ID = "C01"
KS = [0, 1, 2, 3, 10]
FLAGS = [[], ["--ignore-existing-annotations"], ["--omit-existing-annotations"], ["--disable-type-rewriting"]]
FKINDS = ["function", "method", "generator", "generator_ret", "coroutine", "classmethod", "annotated", "generator_alt", "function_alt", "generator_seq", "defaulted"]
RULE = (
    "histories = every depth-1 grammar value alone + every unordered pair over 45 representative values (thorough: + "
    "depth-2 values and triples), each bound to its own generated function (7 function kinds in rotation, one parameter "
    "name per function); per module of 48 functions: k in {0,1,2,3,10} tracing runs x 7 rewriters x 4 CLI flags; state = "
    "one (module, k, rewriter, flag) stub, transition = one (position, observed value) membership judgement on the "
    "evaluated stub text; non-trivial = position whose annotation is not a bare builtin class"
)
EXPLANATION = "exhaustive bounded enumeration through the real trace -> sqlite -> decode -> shrink -> rewrite -> render pipeline"
ASSUMPTIONS = ["reference conformance oracle member()", "an Iterator/Generator return annotation of a generator function speaks about its yielded / returned values; an async def's return annotation about the awaited result"]

SUSP = '''
_NEXT = [None]


class _Susp:
    def __await__(self):
        r = yield "suspended"
        return r

'''


def histories(tier: str) -> List[Tuple[str, ...]]:
    d1 = V.depth1()
    reps = V.REPS + V.D1_REPS + ["Base()", "Derived2()", "MyDict(a=0)", "Base", "{'a': Derived()}", "[{'a': Derived()}]", "{'a': [Base()]}", "defaultdict(int, {'a': {'b': 0}})"]
    hs: List[Tuple[str, ...]] = [(e,) for e in d1]
    hs += list(itertools.combinations(reps, 2))
    # long histories: more observed shapes at one position than RewriteLargeUnion keeps
    hs += [
        ("(0,)", "(0, 0)", "(0, 0, 0)", "('a',)", "('a', 'a')", "('a', 'a', 'a')"),
        ("(0,)", "(0, 0)", "(0, 0, 0)", "(0, 0, 0, 0)", "(0, 0, 0, 0, 0)", "(0, 0, 0, 0, 0, 0)", "()"),
        ("0", "'a'", "1.5", "b'x'", "None", "Base()", "Other()"),
        ("Base()", "Derived()", "Derived2()", "Multi()", "Outer.Inner()", "Other()"),
        ("Derived()", "Derived2()", "Multi()", "Base()", "True", "0"),
        ("[0]", "['a']", "[1.5]", "[None]", "[Base()]", "[[0]]", "[]"),
        ("{'a': 0}", "{'b': 0}", "{'c': 0}", "{'d': 0}", "{'e': 0}", "{'f': 0}"),
        ("{1: 0}", "{'a': 0}", "{1.5: 0}", "{None: 0}", "{(0,): 0}", "{b'x': 0}"),
        ("0", "[0]", "(0,)", "{0}", "{'a': 0}", "defaultdict(int)", "len", "int"),
        ("None", "[]", "()", "set()", "{}", "defaultdict(int)"),
        ("DA()", "DB()", "DC()", "DD()", "DE()", "DF()", "None"),
        ("None", "DF()", "DE()", "DD()", "DC()", "DB()", "DA()", "0"),
        ("[DA()]", "[DB()]", "[DC()]", "[DD()]", "[DE()]", "[DF()]", "[None]"),
        ("{0}", "{0, 'a', 1.5, b'x', None, (0,)}"), ("{0, 'a', 1.5, b'x', None, (0,)}", "{'a'}", "{0}"),
        ("{1: 0}", "{1: 0, 2: 'a', 3: 1.5, 4: b'x', 5: None, 6: (0,)}"), ("defaultdict(int, {1: 0})", "defaultdict(int, {1: 0, 2: 'a', 3: 1.5, 4: b'x', 5: None, 6: (0,)})"),
        ("[0]", "0", "{'a': 0}", "'a'", "(0, 'a')"),
        ("[0] * 1200 + ['a']",), ("[0] * 1200 + [None, 'a']", "[0]"), ("set(range(1500)) | {'a', None}",),
        # ONE container object handed to call after call and grown in between (what is passed is the same object every time)
        ("@shared_list", "0", "'a'", "None", "[0]"), ("@shared_list", "Base()", "Derived()", "{'a': 0}"),
        ("@shared_set", "0", "'a'", "None", "(0,)"), ("@shared_intdict", "0", "'a'", "[0]", "None"),
        ("@shared_strdict", "0", "'a'", "{'a': 0}", "None"), ("@shared_strdict", "Base()", "[Derived()]"),
        # a generator that stays suspended while more than a thousand other calls complete, and yields again afterwards
        ("@suspended_over_calls", "0", "'a'", "None"), ("@suspended_over_calls", "[0]", "['a']", "Base()"),
    ]
    if tier == "thorough":
        hs += [(e,) for e in V.depth2(quick=True)]
        hs += list(itertools.combinations(reps[::2], 3))
    return hs


def gen_module(modname: str, hs: List[Tuple[str, ...]], base: int) -> Tuple[str, List[Dict[str, Any]]]:
    L: List[str] = [SUSP, "class K:", "    pass", ""]
    metas: List[Dict[str, Any]] = []
    methods: List[str] = []
    for i, h in enumerate(hs):
        n = base + i
        kind = FKINDS[n % len(FKINDS)]
        if h and h[0].startswith("@"):
            kind, h = h[0][1:], h[1:]
        fn, pn = f"h{n}", f"p{n}"
        if kind.startswith("shared_"):
            L += [f"def {fn}({pn}):", f"    return len({pn})", ""]
        elif kind == "suspended_over_calls":
            L += [f"def {fn}({pn}):", "    last = None", "    for last in _NEXT[0]:", "        yield last", "    return last", "", f"def {fn}_tick(i):", "    return i", ""]
        if kind == "function":
            L += [f"def {fn}({pn}):", f"    return {pn}", ""]
        elif kind == "annotated":
            L += [f"def {fn}({pn}: object) -> object:", f"    return {pn}", ""]
        elif kind == "defaulted":
            # a parameter whose default is NOT None (a None that is passed explicitly is an observed value like any other)
            L += [f"def {fn}({pn}=0):", f"    return {pn}", ""]
        elif kind == "generator":
            L += [f"def {fn}({pn}):", f"    yield {pn}", f"    yield {pn}", ""]
        elif kind == "generator_ret":
            L += [f"def {fn}({pn}):", f"    yield {pn}", f"    return {pn}", ""]
        elif kind == "coroutine":
            L += [f"async def {fn}({pn}):", "    await _Susp()", f"    return {pn}", ""]
        elif kind == "generator_alt":
            # same argument every time, the yielded value changes from call to call
            L += [f"def {fn}({pn}):", "    yield _NEXT[0]", ""]
        elif kind == "function_alt":
            L += [f"def {fn}({pn}):", "    return _NEXT[0]", ""]
        elif kind == "generator_seq":
            # ONE call yields every value of the history (and returns the last one)
            L += [f"def {fn}({pn}):", "    last = None", "    for last in _NEXT[0]:", "        yield last", "    return last", ""]
        elif kind == "method":
            methods += [f"    def {fn}(self, {pn}):", f"        return {pn}", ""]
        elif kind == "classmethod":
            methods += ["    @classmethod", f"    def {fn}(cls, {pn}):", f"        return {pn}", ""]
        metas.append({"fn": fn, "pn": pn, "kind": kind, "history": list(h)})
    src = "\n".join(L[:3] + methods + [""] + L[4:]) + "\n"
    return src, metas


def drive(M, metas: List[Dict[str, Any]], observed: Dict[str, Dict[str, List[Any]]]) -> None:
    """Run every history; remember (by reference) what was really passed / returned / yielded at every position."""
    for m in metas:
        obs = observed.setdefault(m["fn"], {"param": [], "return": [], "yield": []})
        if m["kind"] == "generator_seq":
            vals = [V.ev(e) for e in m["history"]]
            M._NEXT[0] = vals
            obs["param"].append(0)
            g = getattr(M, m["fn"])(0)
            try:
                while True:
                    obs["yield"].append(next(g))
            except StopIteration as st:
                obs["return"].append(st.value)
            continue
        if m["kind"].startswith("shared_"):
            acc: Any = {"shared_list": list, "shared_set": set, "shared_intdict": dict, "shared_strdict": dict}[m["kind"]]()
            for i, e in enumerate(m["history"]):
                v = V.ev(e)
                if m["kind"] == "shared_list":
                    acc.append(v)
                elif m["kind"] == "shared_set":
                    acc.add(v)
                elif m["kind"] == "shared_intdict":
                    acc[i] = v
                else:
                    acc["k%d" % i] = v
                obs["param"].append(type(acc)(acc))   # what the container held when THIS call started
                obs["return"].append(getattr(M, m["fn"])(acc))
            continue
        if m["kind"] == "suspended_over_calls":
            vals = [V.ev(e) for e in m["history"]]
            M._NEXT[0] = vals
            obs["param"].append(0)
            g = getattr(M, m["fn"])(0)
            obs["yield"].append(next(g))
            tick = getattr(M, m["fn"] + "_tick")
            for i in range(1100):
                tick(i)
            try:
                while True:
                    obs["yield"].append(next(g))
            except StopIteration as st:
                obs["return"].append(st.value)
            continue
        for e in m["history"]:
            v = V.ev(e)
            kind = m["kind"]
            if kind in ("generator_alt", "function_alt"):
                M._NEXT[0] = v
                obs["param"].append(0)
                if kind == "generator_alt":
                    obs["yield"] += list(getattr(M, m["fn"])(0))
                else:
                    obs["return"].append(getattr(M, m["fn"])(0))
                continue
            obs["param"].append(v)
            try:
                if kind in ("function", "annotated", "defaulted"):
                    obs["return"].append(getattr(M, m["fn"])(v))
                elif kind == "method":
                    obs["return"].append(getattr(M.K(), m["fn"])(v))
                elif kind == "classmethod":
                    obs["return"].append(getattr(M.K, m["fn"])(v))
                elif kind == "generator":
                    ys = list(getattr(M, m["fn"])(v))
                    obs["yield"] += ys
                elif kind == "generator_ret":
                    g = getattr(M, m["fn"])(v)
                    try:
                        while True:
                            obs["yield"].append(next(g))
                    except StopIteration as st:
                        obs["return"].append(st.value)
                elif kind == "coroutine":
                    c = getattr(M, m["fn"])(v)
                    try:
                        c.send(None)
                        c.send("r")
                    except StopIteration as st:
                        obs["return"].append(st.value)
            except Exception as ex:  # noqa: BLE001
                raise HarnessError(f"workload {m['fn']} raised {ex!r}")


def rewriters():
    from monkeytype import typing as T

    return [
        ("none", T.NoOpRewriter()), ("REC", T.RemoveEmptyContainers()), ("RCD", T.RewriteConfigDict()), ("RLU", T.RewriteLargeUnion()),
        ("MSCB", T.RewriteMostSpecificCommonBase()), ("RG", T.RewriteGenerator()), ("DEFAULT", T.DEFAULT_REWRITER),
    ]


def judge_stub(text: str, M, metas, observed, flag: List[str]) -> List[Tuple[str, str, str, str]]:
    """-> [(kind, sig, fn, message)]"""
    import collections.abc

    out: List[Tuple[str, str, str, str]] = []
    own = {n: v for n, v in vars(M).items() if isinstance(v, type)}
    info = SE.parse(text, own, lenient_modules=["vfx", "vfx.shapes", "typing", "collections"])
    if info.syntax_error:
        return [("syntax", "stub-does-not-parse", "-", info.syntax_error)]
    for e in info.import_errors:
        out.append(("unresolved", "import-block", "-", e))
    tdfield = bool(info.td_field_errors)
    for msg in info.td_field_errors[:1]:
        out.append(("unresolved", "typed-dict-field-name-unprovided", "-", msg))
    dup = info.duplicate_classes
    for m in metas:
        path = ("K",) if m["kind"] in ("method", "classmethod") else ()
        fis = info.funcs.get((path, m["fn"]))
        if not fis:
            out.append(("missing", "function-missing", m["fn"], f"{m['fn']} is not in the stub"))
            continue
        fi = fis[0]
        obs = observed[m["fn"]]

        def sig_of(default: str) -> str:
            if dup:
                return "typed-dict-class-name-collision"
            return default

        # parameter
        if m["pn"] in fi.ann:
            T = SE.normalize(fi.ann[m["pn"]], info)
            if isinstance(T, SE.Err):
                if not T.msg.startswith("TDFIELD"):
                    out.append(("unresolved", sig_of("annotation-unresolved"), m["fn"], f"{m['fn']} {m['pn']}: {T.msg}"))
            else:
                for v in obs["param"]:
                    if not O.member(v, T):
                        out.append(("nonmember", sig_of(m["kind"]), m["fn"], f"{m['fn']}({m['pn']}: {fi.ann_src[m['pn']]}) was called with {v!r} (history {m['history']})"))
                        break
        elif not flag or flag == ["--disable-type-rewriting"] or (m["kind"] != "annotated"):
            if not (flag == ["--omit-existing-annotations"] and m["kind"] == "annotated"):
                out.append(("missing", "annotation-missing", m["fn"], f"{m['fn']} {m['pn']}: traced parameter without annotation"))
        # return / yield
        if fi.has_return:
            R = SE.normalize(fi.returns, info)
            if isinstance(R, SE.Err):
                if not R.msg.startswith("TDFIELD"):
                    out.append(("unresolved", sig_of("annotation-unresolved"), m["fn"], f"{m['fn']} return: {R.msg}"))
                continue
            k = O.classify(R)
            is_gen = m["kind"] in ("generator", "generator_ret", "generator_alt", "generator_seq", "suspended_over_calls")
            if is_gen and k[0] == "generic" and k[1] in (collections.abc.Iterator, collections.abc.Generator, collections.abc.Iterable) and k[2]:
                Y = k[2][0]
                for v in obs["yield"]:
                    if not O.member(v, Y):
                        out.append(("nonmember", sig_of(m["kind"]), m["fn"], f"{m['fn']} -> {fi.returns_src} yielded {v!r} (history {m['history']})"))
                        break
                if k[1] is collections.abc.Generator and len(k[2]) == 3:
                    for v in obs["return"]:
                        if not O.member(v, k[2][2]):
                            out.append(("nonmember", sig_of(m["kind"]), m["fn"], f"{m['fn']} -> {fi.returns_src} returned {v!r} (history {m['history']})"))
                            break
                elif obs["return"] and any(v is not None for v in obs["return"]):
                    out.append(("nonmember", sig_of(m["kind"]), m["fn"], f"{m['fn']} -> {fi.returns_src} is an Iterator but the generator returned {obs['return'][0]!r}"))
            elif is_gen:
                out.append(("nonmember", sig_of(m["kind"]), m["fn"], f"{m['fn']} is a generator function but its return annotation is {fi.returns_src}"))
            else:
                for v in obs["return"]:
                    if not O.member(v, R):
                        out.append(("nonmember", sig_of(m["kind"]), m["fn"], f"{m['fn']} -> {fi.returns_src} returned {v!r} (history {m['history']})"))
                        break
    return out


def run_module(res: Result, ctx: Ctx, mi: int, hs: List[Tuple[str, ...]], srcdir: Path, only: Optional[Tuple[int, str, int]] = None) -> None:
    import mcfg
    import monkeytype
    from monkeytype import cli

    modname = f"c01m_{ctx.seed}_{mi}"
    src, metas = gen_module(modname, hs, mi * 1000)
    path = srcdir / f"{modname}.py"
    path.write_text(src)
    importlib.invalidate_caches()
    M = importlib.import_module(modname)
    files = {M.__file__}
    rws = rewriters()
    for k in KS:
        if only and only[0] != k:
            continue
        db = str(srcdir / f"{modname}_{k}.sqlite3")
        if os.path.exists(db):
            os.unlink(db)
        mcfg.reset(db=db, k=k, filter=lambda code: code.co_filename in files)
        observed: Dict[str, Dict[str, List[Any]]] = {}
        with monkeytype.trace(mcfg.CONFIG):
            drive(M, metas, observed)
        for rname, rw in rws:
            if only and only[1] != rname:
                continue
            mcfg.STATE["rewriter"] = rw
            for fi_, flag in enumerate(FLAGS):
                if only and only[2] != fi_:
                    continue
                if flag == ["--disable-type-rewriting"] and rname != "DEFAULT":
                    continue
                out, err = io.StringIO(), io.StringIO()
                res.states += 1
                case = {"module": mi, "k": k, "rewriter": rname, "flag": fi_, "tier": ctx.tier}
                glob = [f for f in flag if f == "--disable-type-rewriting"]
                sub = [f for f in flag if f != "--disable-type-rewriting"]
                try:
                    rc = cli.main(["-c", "mcfg:fresh()"] + glob + ["stub", modname] + sub, out, err)
                except SystemExit as e:
                    raise HarnessError(f"argparse rejected the command line: {e}")
                except Exception as e:  # noqa: BLE001
                    res.violate(Violation(ID, "exception", f"{rname}:{type(e).__name__}", case, f"stub raised {e!r}"))
                    continue
                res.evaluations += 1
                res.validated += 1
                if rc != 0 or not out.getvalue().strip():
                    res.violate(Violation(ID, "exception", "stub-failed", case, f"rc={rc} stderr={err.getvalue()[-300:]}"))
                    continue
                vs = judge_stub(out.getvalue(), M, metas, observed, flag)
                res.transitions += 3 * len(metas)
                seen = set()
                for kind, sig, fn, msg in vs:
                    if (kind, sig) in seen:
                        res.count(f"violations[{kind}/{sig}]")
                        continue
                    seen.add((kind, sig))
                    res.violate(Violation(ID, kind, sig, dict(case, fn=fn), msg))
                if not vs:
                    res.nontrivial_n += len(metas)
                    res.outcomes.add(hash(out.getvalue().replace(modname, "M")))
                res.oblige(f"rewriter:{rname}", True)
                res.oblige(f"flag:{fi_}", True)
                if res.states % 401 == 1:
                    res.sample({"module": mi, "k": k, "rewriter": rname, "flag": flag, "stub_head": out.getvalue()[:300]})
    # every function alone (`stub module:qualname`): nothing else in the stub can supply a missing import or class
    if only is None or only[2] == -1:
        k = 3
        db = str(srcdir / f"{modname}_{k}.sqlite3")
        mcfg.reset(db=db, k=k, filter=lambda code: code.co_filename in files)
        observed = {}
        if not os.path.exists(db):
            with monkeytype.trace(mcfg.CONFIG):
                drive(M, metas, observed)
        else:
            mcfg.reset(db=str(srcdir / "discard.sqlite3"), k=k, filter=lambda code: False)
            drive(M, metas, observed)
            mcfg.reset(db=db, k=k, filter=lambda code: code.co_filename in files)
        for m in metas:
            qual = ("K." if m["kind"] in ("method", "classmethod") else "") + m["fn"]
            out, err = io.StringIO(), io.StringIO()
            res.states += 1
            case = {"module": mi, "k": k, "rewriter": "DEFAULT", "flag": -1, "tier": ctx.tier, "fn": m["fn"]}
            try:
                rc = cli.main(["-c", "mcfg:fresh()", "stub", f"{modname}:{qual}"], out, err)
            except BaseException as e:  # noqa: BLE001
                res.violate(Violation(ID, "exception", "single-function-stub", case, f"stub {qual} raised {e!r}"))
                continue
            res.evaluations += 1
            res.validated += 1
            res.transitions += 3
            if rc != 0 or not out.getvalue().strip():
                res.violate(Violation(ID, "exception", "stub-failed", case, f"single-function stub rc={rc} stderr={err.getvalue()[-200:]}"))
                continue
            for kind, sig, fn, msg in judge_stub(out.getvalue(), M, [m], observed, [])[:2]:
                res.violate(Violation(ID, kind, sig if sig.startswith("typed-dict") else "single:" + sig, case, "alone in its stub: " + msg))
        res.oblige("single-function-stubs", True)
    # more stored calls than the query limit, few distinct ones: the rarely seen value still belongs to the annotation
    if (only is None and mi % 4 == 0) or (only and only[2] == -2):
        fm = [m for m in metas if m["kind"] in ("function", "method", "classmethod")][mi % 3:][:1]
        for lim in (3, 4):
            db = str(srcdir / f"{modname}_lim{lim}.sqlite3")
            if os.path.exists(db):
                os.unlink(db)
            mcfg.reset(db=db, k=0, filter=lambda code: code.co_filename in files, limit=lim)
            observed = {}
            rare = {"fn": None}
            with monkeytype.trace(mcfg.CONFIG):
                for m in fm:
                    tgt_ = M.K() if m["kind"] == "method" else (M.K if m["kind"] == "classmethod" else M)
                    f = getattr(tgt_, m["fn"])
                    obs = observed.setdefault(m["fn"], {"param": [], "return": [], "yield": []})
                    for v in [0] * 5 + ["rare"] + [0] * 5 + [1.5]:
                        obs["param"].append(v)
                        obs["return"].append(f(v))
            out, err = io.StringIO(), io.StringIO()
            res.states += 1
            res.evaluations += 1
            res.validated += 1
            res.transitions += 3 * len(fm)
            case = {"module": mi, "k": 0, "rewriter": "DEFAULT", "flag": -2, "tier": ctx.tier, "limit": lim}
            try:
                rc = cli.main(["-c", "mcfg:fresh()", "stub", modname], out, err)
            except BaseException as e:  # noqa: BLE001
                res.violate(Violation(ID, "exception", "stub-with-small-limit", case, f"stub raised {e!r}"))
                continue
            # one function, three distinct rows, query limit >= 3 (the limit counts rows of the whole module)
            if lim >= 3:
                for kind, sig, fn, msg in judge_stub(out.getvalue(), M, fm, observed, [])[:2]:
                    res.violate(Violation(ID, kind, "many-duplicate-calls:" + sig, dict(case, fn=fn), f"12 stored calls, 3 distinct, query limit {lim}: " + msg))
        res.oblige("duplicate-heavy-store", True)
    del sys.modules[modname]


def persistent_logger_stage(ctx: Ctx) -> Result:
    """A Config that keeps ONE CallTraceStoreLogger for all its tracing sessions, over a store whose add() fails
    transiently (`database is locked`): three sessions with different argument types, every subset of the first two flushes
    failing, the last one succeeding. The failures are contained, and the stub produced afterwards admits every value of
    every session (what a failed flush could not store is still with the logger)."""
    import sqlite3

    import mcfg
    import monkeytype
    from monkeytype import cli
    from monkeytype.db.base import CallTraceStoreLogger
    from monkeytype.db.sqlite import SQLiteStore

    res = Result()
    srcdir = ctx.tmp / "c01_persist"
    srcdir.mkdir(exist_ok=True)
    if str(srcdir) not in sys.path:
        sys.path.insert(0, str(srcdir))
    modname = f"c01persist_{ctx.seed}"
    (srcdir / f"{modname}.py").write_text("def label(x):\n    return [x]\n")
    importlib.invalidate_caches()
    M = importlib.import_module(modname)
    files = {M.__file__}
    sessions = [[0, 1], ["text"], [None, 2.5]]
    for failing in ((), (1,), (2,), (1, 2)):
        db = str(srcdir / f"p_{'_'.join(map(str, failing)) or 'none'}.sqlite3")
        if os.path.exists(db):
            os.unlink(db)
        mcfg.reset(db=db, k=0, filter=lambda code: code.co_filename in files)
        calls = {"n": 0}
        real = SQLiteStore.make_store(db)

        class Flaky:
            def add(self, traces):
                calls["n"] += 1
                if calls["n"] in failing:
                    raise sqlite3.OperationalError("database is locked")
                return real.add(traces)

            def filter(self, *a, **kw):
                return real.filter(*a, **kw)

            def list_modules(self):
                return real.list_modules()

        logger_ = CallTraceStoreLogger(Flaky())  # type: ignore[arg-type]

        class Persist(mcfg.Cfg):
            def trace_logger(self):
                return logger_

        cfg = Persist()
        observed: Dict[str, Dict[str, List[Any]]] = {"label": {"param": [], "return": [], "yield": []}}
        escaped = None
        for vals in sessions:
            try:
                with monkeytype.trace(cfg):
                    for v in vals:
                        observed["label"]["param"].append(v)
                        observed["label"]["return"].append(M.label(v))
            except Exception as e:  # noqa: BLE001
                escaped = e
        res.states += 1
        res.evaluations += 1
        res.validated += 1
        res.transitions += 3
        case = {"module": -9, "k": 0, "rewriter": "DEFAULT", "flag": 0, "tier": ctx.tier, "failing_flushes": list(failing)}
        if escaped is not None:
            res.violate(Violation(ID, "exception", "flush-failure-escaped", case, f"a failing store made trace() raise {escaped!r}"))
            continue
        out, err = io.StringIO(), io.StringIO()
        mcfg.reset(db=db, k=0)
        rc = cli.main(["-c", "mcfg:fresh()", "stub", modname], out, err)
        if rc != 0 or not out.getvalue().strip():
            res.violate(Violation(ID, "exception", "stub-failed", case, f"rc={rc} stderr={err.getvalue()[-200:]}"))
            continue
        metas = [{"fn": "label", "pn": "x", "kind": "function", "history": [repr(s_) for s_ in sessions]}]
        for kind, sig, fn, msg in judge_stub(out.getvalue(), M, metas, observed, [])[:2]:
            res.violate(Violation(ID, kind, "traces-lost-after-failed-flush:" + sig, case, f"flushes {list(failing)} of 3 failed (transient store error), one logger for all sessions: " + msg))
    res.oblige("persistent-logger-with-failing-store", True)
    sys.modules.pop(modname, None)
    return res


def interleaved_runs_stage(ctx: Ctx) -> Result:
    """run -> stub -> run -> stub in ONE long-lived process: the second run happens in ANOTHER process (its own tracing
    session and store connection, as a second `monkeytype run` would), this process asks for the stub before and after it.
    Each stub admits every value observed so far - the second one also the values of the second run."""
    import mcfg
    import monkeytype
    from monkeytype import cli

    res = Result()
    srcdir = ctx.tmp / "c01_interleaved"
    srcdir.mkdir(exist_ok=True)
    if str(srcdir) not in sys.path:
        sys.path.insert(0, str(srcdir))
    modname = f"c01inter_{ctx.seed}"
    hs = [("0", "'a'"), ("[0]", "None"), ("{'a': 0}", "{'b': 'x'}"), ("Base()", "Other()"), ("(0,)", "(0, 'a')"), ("None", "1.5"), ("[]", "['a']"), ("{0}", "set()"),
          ("0", "[0]"), ("'a'", "b'x'"), ("Derived()", "None"), ("{1: 0}", "{'a': 0}")]
    src, metas = gen_module(modname, hs, 77000)
    (srcdir / f"{modname}.py").write_text(src)
    importlib.invalidate_caches()
    M = importlib.import_module(modname)
    files = {M.__file__}
    first = [dict(m, history=m["history"][:1]) for m in metas]
    second = [dict(m, history=m["history"][1:]) for m in metas]
    for k in (0, 3):
        (srcdir / f"k{k}").mkdir(exist_ok=True)
        db = str(srcdir / f"k{k}" / "traces.sqlite3")
        if os.path.exists(db):
            os.unlink(db)
        mcfg.reset(db=db, k=k, filter=lambda code: code.co_filename in files)
        observed: Dict[str, Dict[str, List[Any]]] = {}
        with monkeytype.trace(mcfg.CONFIG):
            drive(M, first, observed)
        for step in (1, 2):
            if step == 2:
                pid = os.fork()
                if pid == 0:
                    try:
                        mcfg.STATE["db"] = str(srcdir / f"k{k}" / "." / "traces.sqlite3")   # this process's own connection to the file
                        with monkeytype.trace(mcfg.CONFIG):
                            drive(M, second, {})
                        os._exit(0)
                    except BaseException:  # noqa: BLE001
                        os._exit(3)
                _, status = os.waitpid(pid, 0)
                if status != 0:
                    raise HarnessError(f"second run (other process) failed with status {status}")
                drive(M, second, observed)   # (untraced, in this process: what the other process's run passed and returned)
            out, err = io.StringIO(), io.StringIO()
            res.states += 1
            res.evaluations += 1
            res.validated += 1
            case = {"module": -8, "k": k, "rewriter": "DEFAULT", "flag": 0, "tier": ctx.tier}
            try:
                rc = cli.main(["-c", "mcfg:CONFIG", "stub", modname], out, err)
            except Exception as e:  # noqa: BLE001
                res.violate(Violation(ID, "exception", f"interleaved-runs:{type(e).__name__}", case, f"stub after run {step} raised {e!r}"))
                continue
            if rc != 0:
                res.violate(Violation(ID, "exception", "interleaved-runs:rc", case, f"stub after run {step}: rc={rc} {err.getvalue()[-200:]}"))
                continue
            for kind, sig, fn, msg in judge_stub(out.getvalue(), M, metas, observed, [])[:2]:
                res.violate(Violation(ID, kind, "stub-asked-again-after-a-second-run:" + sig, case, f"run, stub, run (other process), stub in one process; stub after run {step}: " + msg))
            res.transitions += len(metas)
            res.nontrivial_n += 1
    res.oblige("interleaved-runs", True)
    del sys.modules[modname]
    return res


def modules(tier: str) -> List[List[Tuple[str, ...]]]:
    hs = histories(tier)
    n = 48
    return [hs[i: i + n] for i in range(0, len(hs), n)]


def run(ctx: Ctx) -> Result:
    ms = modules(ctx.tier)
    nshards = ctx.workers * 2

    def shard(ctx: Ctx, shi: int) -> Result:
        res = Result()
        srcdir = ctx.tmp / f"c01_{shi}"
        srcdir.mkdir(exist_ok=True)
        sys.path.insert(0, str(srcdir))
        for mi in range(shi, len(ms), nshards):
            run_module(res, ctx, mi, ms[mi], srcdir)
        return res

    res = run_shards(ctx, shard, list(range(nshards)))
    res.merge(persistent_logger_stage(ctx))
    res.merge(interleaved_runs_stage(ctx))
    res.obligations.setdefault("interleaved-runs", False)
    res.obligations.setdefault("persistent-logger-with-failing-store", False)
    for rname, _ in rewriters():
        res.obligations.setdefault(f"rewriter:{rname}", False)
    for i in range(len(FLAGS)):
        res.obligations.setdefault(f"flag:{i}", False)
    res.obligations.setdefault("single-function-stubs", False)
    res.obligations.setdefault("duplicate-heavy-store", False)
    res.bounds.update({"histories": sum(len(m) for m in ms), "modules": len(ms), "k": KS, "rewriters": 7, "flags": 4})
    return res


def replay(case: Dict[str, Any], ctx: Ctx) -> List[Violation]:
    res = Result()
    ctx.tier = case.get("tier", "quick")
    if case.get("module") == -9:
        return persistent_logger_stage(ctx).violations
    if case.get("module") == -8:
        return interleaved_runs_stage(ctx).violations
    ms = modules(ctx.tier)
    srcdir = ctx.tmp / "c01_replay"
    srcdir.mkdir(exist_ok=True)
    sys.path.insert(0, str(srcdir))
    run_module(res, ctx, case["module"], ms[case["module"]], srcdir, (case["k"], case["rewriter"], case["flag"]))
    return res.violations
