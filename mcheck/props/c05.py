"""C05 — inferred types are tight: every alternative is witnessed by an observed value (before any rewriter).
Engine E1 over the same space as C04; oracle = tight() walking type and values in lock-step."""
from __future__ import annotations

from typing import Any, Dict, List

from mcheck.core.runner import Ctx, Result, Violation
from mcheck.oracles import types as O
from mcheck.props import infer_common as IC

ID = "C05"
RULE = (
    "same space as C04 (multisets of 1..3/4 grammar values x k in {0,1,2,3,10,200}); state = (multiset,k), transition = one "
    "get_type*+shrink_types evaluation judged by the witness oracle tight(); non-trivial = result contains a Union, an "
    "optional TypedDict key, Any, or a user class"
)
EXPLANATION = "exhaustive bounded enumeration; oracle: witness walk (every union member / class / Any / required-optional key justified by an observed value)"
ASSUMPTIONS = ["value grammar of DESIGN section 3", "witness oracle rules of DESIGN C05"]


def _interesting(T: Any) -> bool:
    for n in O.walk(T):
        k = O.classify(n)
        if k[0] in ("union", "any") or (k[0] == "atd" and k[2]) or (k[0] == "class" and k[1].__module__ != "builtins"):
            return True
    return False


def _has_str_subclass_key(vals: List[Any]) -> bool:
    seen = []

    def walk(v: Any) -> bool:
        if isinstance(v, dict):
            if any(type(k) is not str and isinstance(k, str) for k in v):
                return True
            return any(walk(x) for x in v.values())
        if isinstance(v, (list, tuple, set, frozenset)):
            return any(walk(x) for x in v)
        return False

    return any(walk(v) for v in vals)


def _some_str_subclass_keyed_dict_fits(vals: List[Any], k: int) -> bool:
    """Is there a dict keyed by str-subclass instances that get_type would turn into a TypedDict under limit k (all keys
    strings and identifiers, at most k of them)? Only such a dict can reach the open finding (a TypedDict that later falls
    back to Dict[str, ...]); a dict that never is a TypedDict must keep its key class."""
    import keyword

    found = []

    def walk(v: Any) -> None:
        if isinstance(v, dict):
            if v and all(isinstance(x, str) for x in v) and any(type(x) is not str for x in v):
                if k > 0 and len(v) <= k and all(x.isidentifier() and not keyword.iskeyword(x) for x in v):
                    found.append(v)
            for x in v.values():
                walk(x)
        elif isinstance(v, (list, tuple, set, frozenset)):
            for x in v:
                walk(x)

    for v in vals:
        walk(v)
    return bool(found)


def judge(res: Result, case: Dict[str, Any], vals: List[Any], typ, k: int, get_type, shrink_types) -> None:
    n = len(vals)
    per = [typ(p) for p in range(n)]
    if any(p[0] != "ok" for p in per):
        return  # C04's business
    types = [p[1] for p in per]
    res.transitions += 1
    res.evaluations += 1
    res.validated += 1
    try:
        T = shrink_types(types, k)
    except Exception:  # noqa: BLE001
        return  # C04's business
    arm = IC.arm_of(types, k)
    res.oblige(f"arm:{arm}", True)
    why = O.tight(T, vals)
    if why is not None:
        sig = why.split(":", 1)[1].strip().split(" ")[0:3]
        full_sig = f"{arm}:{'_'.join(sig)}"
        if "[k]: class str is not the exact runtime class" in why and _has_str_subclass_key(vals):
            # input class of the failing case: a dict keyed by instances of a proper str subclass, reported with key class str
            full_sig = "str-subclass-dict-key-reported-as-str" if _some_str_subclass_keyed_dict_fits(vals, k) else "str-subclass-dict-key-reported-as-str:dict-that-never-was-a-typed-dict"
        res.violate(Violation(ID, "loose", full_sig, case, f"{O.show(T)} — {why}"))
        return
    res.outcomes.add(hash(O.struct(T)))
    # the same collection merged as call traces (one trace per value, plus one call that raised and one that yielded):
    # the per-position types of shrink_traced_types must be as tight as the direct merge
    if case.get("family", "").startswith(("single", "pair")):
        from monkeytype.stubs import shrink_traced_types
        from monkeytype.tracing import CallTrace

        import vfx.shapes as S

        traces = [CallTrace(S.mfunc, {"x": t}, t, None) for t in types] + [CallTrace(S.mfunc, {"x": types[0]}, None, None)]
        res.transitions += 1
        try:
            args, ret, yld = shrink_traced_types(traces, k)
        except Exception as e:  # noqa: BLE001
            res.violate(Violation(ID, "exception", "shrink_traced_types", case, f"raised {e!r}"))
            return
        for label, TT in (("arg", args.get("x")), ("return", ret)):
            if TT is None:
                res.violate(Violation(ID, "loose", f"traces:{label}-missing", case, f"{label} type missing after merging traces"))
                continue
            w2 = O.tight(TT, vals) if all(O.member(v, TT) for v in vals) else "a value is not a member"
            if w2 is not None:
                res.violate(Violation(ID, "loose", f"traces:{label}", case, f"merged {label} type {O.show(TT)} — {w2}"))
        if yld is not None:
            res.violate(Violation(ID, "loose", "traces:yield-invented", case, f"yield type {O.show(yld)} although nothing was yielded"))
    if _interesting(T):
        res.nontrivial_n += 1
        names = {O.classify(x)[0] for x in O.walk(T)}
        if "any" in names:
            res.oblige("saw:Any-justified-by-empty-container", True)
        if "union" in names:
            res.oblige("saw:union", True)
        if any(O.classify(x)[0] == "atd" and O.classify(x)[2] for x in O.walk(T)):
            res.oblige("saw:optional-key", True)


NOREWRITE_HISTORIES = [
    ("0", "'a'", "1.5", "b'x'", "None", "Base()", "Other()"),
    ("Derived()", "Derived2()"), ("Derived()", "Derived2()", "Multi()", "Base()"),
    ("DA()", "DB()", "DC()", "DD()", "DE()", "DF()"), ("DA()", "DB()", "DC()", "DD()", "DE()", "DF()", "None"),
    ("[]", "[0]"), ("set()", "{0}", "{'a'}"), ("{}", "{1: 0}"), ("{1: 0}", "{1: 'a'}"), ("{'a': 0}", "{'a': 'a', 'b': 0}"),
    ("(0,)", "(0, 0)", "(0, 0, 0)", "('a',)", "('a', 'a')", "('a', 'a', 'a')"), ("[0]", "['a']", "[1.5]", "[None]", "[Base()]", "[[0]]", "[]"),
    ("0",), ("[Derived(), Derived2()]",), ("{'a': [], 'b': [0]}", "{'a': [0]}"),
    # equal nested dicts below parents that differ (every observed dict at ['db'] has both keys)
    ("{'db': {'host': 'h', 'port': 1}, 'retries': 0}", "{'db': {'host': 'h', 'port': 1}, 'retries': 'a'}"),
    ("{'db': {'host': 'h'}, 'n': 0}", "{'db': {'host': 'h'}, 'n': None}", "{'db': {'host': 'h'}, 'n': 1.5}"),
]


def no_rewriter_stage(ctx: Ctx) -> Result:
    """Every way of asking for stubs WITHOUT a rewriter - build_module_stubs_from_traces with no rewriter argument,
    StubIndexBuilder, and `stub --disable-type-rewriting` through the CLI - denotes exactly the inferred (merged) type: a
    return annotation that is wider than shrink_types' result admits something that was never seen."""
    import io
    import os

    import mcfg
    import vfx.shapes as S
    from monkeytype import cli
    from monkeytype.stubs import StubIndexBuilder, build_module_stubs_from_traces
    from monkeytype.tracing import CallTrace
    from monkeytype.typing import get_type, shrink_types

    from mcheck.gen import values as V
    from mcheck.oracles import stubeval as SE

    res = Result()
    own = {n: v for n, v in vars(S).items() if isinstance(v, type) and v.__module__ == S.__name__}
    db = str(ctx.tmp / "c05_norewrite.sqlite3")
    for hi, h in enumerate(NOREWRITE_HISTORIES):
        vals = [V.ev(e) for e in h]
        for k in (0, 3):
            types = [get_type(v, k) for v in vals]
            direct = shrink_types(types, k)
            # (even histories: the calls differ in their argument too; odd ones: one argument type, different results)
            traces = [CallTrace(S.mfunc, {"x": t if hi % 2 == 0 else int}, t, None) for t in types]
            texts = {}
            case = {"values": list(h), "k": k, "family": "no-rewriter", "hi": hi}
            try:
                texts["build_module_stubs_from_traces"] = build_module_stubs_from_traces(traces, k)["vfx.shapes"].render()
                sib = StubIndexBuilder("vfx.shapes", k)
                for t in traces:
                    sib.log(t)
                texts["StubIndexBuilder"] = sib.get_stubs()["vfx.shapes"].render()
                if os.path.exists(db):
                    os.unlink(db)
                # (the store holds many copies of the first row, as for a function called again and again: more raw rows
                # than the query limit, fewer distinct ones)
                mcfg.reset(db=db, k=k, limit=len(traces) + 2)
                mcfg.CONFIG.trace_store().add([traces[0]] * (len(traces) + 4) + traces)
                out, err = io.StringIO(), io.StringIO()
                cli.main(["-c", "mcfg:fresh()", "--disable-type-rewriting", "stub", "vfx.shapes"], out, err)
                texts["cli --disable-type-rewriting"] = out.getvalue()
            except Exception as e:  # noqa: BLE001
                res.violate(Violation(ID, "exception", "no-rewriter-stage", case, f"raised {e!r}"))
                continue
            # a fourth way: the calls are really made under the tracer (StubIndexBuilder as logger), every value passed inside
            # ONE list object whose only element is replaced in place between the calls
            boxed_direct = None
            try:
                from monkeytype.tracing import trace_calls

                sib2 = StubIndexBuilder("vfx.shapes", k)
                box = [None]
                with trace_calls(sib2, k, lambda code: code.co_filename == S.__file__):
                    for v in vals:
                        box[0] = v
                        S.mfunc(box)
                texts["traced calls (one list object, element replaced in place)"] = sib2.get_stubs()["vfx.shapes"].render()
                boxed_direct = shrink_types([get_type([v], k) for v in vals], k)
            except Exception as e:  # noqa: BLE001
                res.violate(Violation(ID, "exception", "no-rewriter-stage", case, f"traced calls raised {e!r}"))
            for how, text in texts.items():
                res.states += 1
                res.transitions += 1
                res.evaluations += 1
                res.validated += 1
                info = SE.parse(text, own, lenient_modules=["vfx", "vfx.shapes", "typing", "collections"])
                fis = info.funcs.get(((), "mfunc"))
                if info.syntax_error or not fis or not fis[0].has_return:
                    res.violate(Violation(ID, "loose", "no-rewriter:unreadable", case, f"{how}: stub unreadable: {info.syntax_error or text[:200]!r}"))
                    continue
                R = SE.normalize(fis[0].returns, info)
                if isinstance(R, SE.Err):
                    continue   # C11's business (names the stub does not provide)
                if how.startswith("traced calls"):
                    if O.struct(R) != O.struct(boxed_direct):
                        res.violate(Violation(ID, "loose", "no-rewriter:traced-calls", case, f"{how}: the return annotation {fis[0].returns_src!r} denotes {O.show(R)}, the values returned were the lists {[[e] for e in h]} whose inferred type is {O.show(boxed_direct)}"))
                    else:
                        res.nontrivial_n += 1
                    continue
                if O.struct(R) != O.struct(direct):
                    res.violate(Violation(ID, "loose", "no-rewriter:" + how.split(" ")[0], case, f"{how}: the return annotation {fis[0].returns_src!r} denotes {O.show(R)}, the inferred type (no rewriter asked for) is {O.show(direct)}"))
                else:
                    res.nontrivial_n += 1
    # long containers typed AFTER tracers have existed in this process (whatever a tracing session leaves behind must not
    # change how values are typed): the deviating element comes late
    for e in ("[{'a': 0, 'b': 0}] * 4200 + [{'a': 0}]", "[{'a': 0}] * 5000 + [{'a': 'x', 'b': 0}]", "{0} | {('t', i) for i in range(4200)} | {None}"):
        vals = [V.ev(e)]
        for k in (3,):
            res.states += 1
            case = {"values": [e], "k": k, "family": "no-rewriter", "hi": -1, "long": True}
            T_long = get_type(vals[0], k)
            judge(res, case, vals, lambda p, T_long=T_long: ("ok", T_long), k, get_type, shrink_types)
    res.oblige("no-rewriter-entry-points", True)
    return res


def run(ctx: Ctx) -> Result:
    res = IC.run_inference(ctx, ID, judge)
    res.merge(no_rewriter_stage(ctx))
    res.obligations.setdefault("no-rewriter-entry-points", False)
    for a in ("arm:all_td", "arm:all_td_oversize", "arm:all_lists", "arm:mixed", "saw:Any-justified-by-empty-container", "saw:union", "saw:optional-key"):
        res.obligations.setdefault(a, False)
    return res


def replay(case: Dict[str, Any], ctx: Ctx) -> List[Violation]:
    if case.get("family") == "no-rewriter":
        return [v for v in no_rewriter_stage(ctx).violations if v.case.get("hi") == case.get("hi") and v.case.get("k") == case.get("k")]
    return IC.replay_case(case, judge)
