"""C05 — inferred types are tight: every alternative is witnessed by an observed value (before any rewriter).
Engine E1 over the same space as C04; oracle = tight() walking type and values in lock-step."""
from __future__ import annotations

from typing import Any, Dict, List

from mcheck.core.runner import Ctx, Result, Violation
from mcheck.oracles import types as O
from mcheck.props import infer_common as IC

ID = "C05"
RULE = (
    "same space as C04 (multisets of 1..3/4 grammar values x k in {0,1,2,3,10,200}); state = (multiset,k), transition = one "
    "get_type*+shrink_types evaluation judged by the witness oracle tight(); non-trivial = result contains a Union, an "
    "optional TypedDict key, Any, or a user class"
)
EXPLANATION = "exhaustive bounded enumeration; oracle: witness walk (every union member / class / Any / required-optional key justified by an observed value)"
ASSUMPTIONS = ["value grammar of DESIGN section 3", "witness oracle rules of DESIGN C05"]


def _interesting(T: Any) -> bool:
    for n in O.walk(T):
        k = O.classify(n)
        if k[0] in ("union", "any") or (k[0] == "atd" and k[2]) or (k[0] == "class" and k[1].__module__ != "builtins"):
            return True
    return False


def judge(res: Result, case: Dict[str, Any], vals: List[Any], typ, k: int, get_type, shrink_types) -> None:
    n = len(vals)
    per = [typ(p) for p in range(n)]
    if any(p[0] != "ok" for p in per):
        return  # C04's business
    types = [p[1] for p in per]
    res.transitions += 1
    res.evaluations += 1
    res.validated += 1
    try:
        T = shrink_types(types, k)
    except Exception:  # noqa: BLE001
        return  # C04's business
    arm = IC.arm_of(types, k)
    res.oblige(f"arm:{arm}", True)
    why = O.tight(T, vals)
    if why is not None:
        sig = why.split(":", 1)[1].strip().split(" ")[0:3]
        res.violate(Violation(ID, "loose", f"{arm}:{'_'.join(sig)}", case, f"{O.show(T)} — {why}"))
        return
    res.outcomes.add(hash(O.struct(T)))
    # the same collection merged as call traces (one trace per value, plus one call that raised and one that yielded):
    # the per-position types of shrink_traced_types must be as tight as the direct merge
    if case.get("family", "").startswith(("single", "pair")):
        from monkeytype.stubs import shrink_traced_types
        from monkeytype.tracing import CallTrace

        import vfx.shapes as S

        traces = [CallTrace(S.mfunc, {"x": t}, t, None) for t in types] + [CallTrace(S.mfunc, {"x": types[0]}, None, None)]
        res.transitions += 1
        try:
            args, ret, yld = shrink_traced_types(traces, k)
        except Exception as e:  # noqa: BLE001
            res.violate(Violation(ID, "exception", "shrink_traced_types", case, f"raised {e!r}"))
            return
        for label, TT in (("arg", args.get("x")), ("return", ret)):
            if TT is None:
                res.violate(Violation(ID, "loose", f"traces:{label}-missing", case, f"{label} type missing after merging traces"))
                continue
            w2 = O.tight(TT, vals) if all(O.member(v, TT) for v in vals) else "a value is not a member"
            if w2 is not None:
                res.violate(Violation(ID, "loose", f"traces:{label}", case, f"merged {label} type {O.show(TT)} — {w2}"))
        if yld is not None:
            res.violate(Violation(ID, "loose", "traces:yield-invented", case, f"yield type {O.show(yld)} although nothing was yielded"))
    if _interesting(T):
        res.nontrivial_n += 1
        names = {O.classify(x)[0] for x in O.walk(T)}
        if "any" in names:
            res.oblige("saw:Any-justified-by-empty-container", True)
        if "union" in names:
            res.oblige("saw:union", True)
        if any(O.classify(x)[0] == "atd" and O.classify(x)[2] for x in O.walk(T)):
            res.oblige("saw:optional-key", True)


def run(ctx: Ctx) -> Result:
    res = IC.run_inference(ctx, ID, judge)
    for a in ("arm:all_td", "arm:all_td_oversize", "arm:all_lists", "arm:mixed", "saw:Any-justified-by-empty-container", "saw:union", "saw:optional-key"):
        res.obligations.setdefault(a, False)
    return res


def replay(case: Dict[str, Any], ctx: Ctx) -> List[Violation]:
    return IC.replay_case(case, judge)
