"""C16 — --pep_563 confines only annotation-only imports and keeps the module importable.
Engine E1: complete product of import placement x import form x runtime use x kind of import the stub adds, with
confinement on; oracle: placement of every import in the result + the result is EXECUTED and its workload re-run."""
from __future__ import annotations

import ast
import importlib
import itertools
import sys
from pathlib import Path
from typing import Any, Dict, List, Optional, Tuple

from mcheck.core.par import run_shards
from mcheck.core.runner import Ctx, Result, Violation
from mcheck.props import applycommon as AC

ID = "C16"
PLACEMENTS = ["top", "after_docstring", "after_future", "in_function", "in_type_checking", "after_code", "type_checking_in_try", "in_try", "in_with", "in_for", "in_class", "next_to_if_on_call_attribute", "type_checking_else", "late_type_checking_import", "after_other_future", "with_package_import"]
DIFF_PLACEMENTS = ["top", "in_function", "in_type_checking", "type_checking_else", "late_type_checking_import", "in_try"]   # quick tier: differential against the unconfined application
FORMS = ["import_pkg", "import_sub", "from_import", "from_import_as", "from_star", "import_as"]
USES = [True, False]
STUBKINDS = ["new_user_module", "typing_name", "already_imported_name", "typed_dict", "same_module_other_name", "no_new_import", "user_module_named_like_typing", "same_short_name_other_module", "same_short_name_in_submodule"]
RULE = (
    "complete product of import placement {top, after docstring, after __future__, inside a function, inside an existing "
    "`if TYPE_CHECKING:`, after module code, inside a module-level try / with / for block, inside a class body} x form {import a, import a.b, from a import b, from a import b as c, from a "
    "import *, import a as x} x runtime use {yes,no} x what the stub imports {new user module, typing name, a name the "
    "source already imports, mypy_extensions.TypedDict via a generated class (k=3), another name of the same module} x "
    "overwrite {F,T}; state = one application with confinement on, transition = one oracle clause (future import first, new "
    "annotation-only imports confined, original imports in place with their aliases, result executes and reproduces the "
    "workload's result); non-trivial = application that added at least one import"
)
EXPLANATION = "exhaustive bounded enumeration of import shapes; results are executed, not only inspected"
ASSUMPTIONS = ["fixture package shp importable", "the workload's observable result is the module-level RESULT value"]


def gen_source(pl: str, form: str, use: bool) -> Tuple[str, str]:
    """-> (source text, expression that uses the import at runtime)."""
    imp = {
        "import_pkg": ("import shp", "shp.Circle().area()"),
        "import_sub": ("import shp.sub", "shp.sub.Tri().area()"),
        "from_import": ("from shp import Circle", "Circle().area()"),
        "from_import_as": ("from shp import Circle as C", "C().area()"),
        "from_star": ("from shp import *", "Circle().area()"),
        "import_as": ("import shp as S", "S.Circle().area()"),
        "from_relative": ("from .rsub import Tri", "Tri().area()"),
    }[form]
    stmt, expr = imp
    L: List[str] = []
    if pl in ("after_docstring",):
        L += ['"""Docstring first."""']
    if pl == "after_future":
        L += ["from __future__ import annotations"]
    if pl == "after_other_future":
        # another __future__ feature (and the word in a comment): `annotations` is still to be added, first
        L += ["# uses __future__ division", "from __future__ import division"]
    if pl == "in_type_checking":
        L += ["from typing import TYPE_CHECKING", "if TYPE_CHECKING:", "    " + stmt]
        use = False  # a name imported only for type checking cannot be used at runtime
    elif pl == "in_function":
        pass
    elif pl == "type_checking_in_try":
        # the compatibility idiom: TYPE_CHECKING is bound inside try/except, below the plain imports
        L += ["import os", stmt, "try:", "    from typing import TYPE_CHECKING", "except ImportError:", "    TYPE_CHECKING = False"]
    elif pl == "with_package_import":
        # the package itself is imported too (the name `shp` is bound whatever the form binds)
        L += ["import os", "import shp", stmt]
    elif pl == "after_code":
        L += ["import os", "VALUE = os.sep", stmt]
    elif pl == "type_checking_else":
        # the import is a RUNTIME import in the else branch of a TYPE_CHECKING test (a type checker reads the other branch)
        L += ["import os", "from typing import TYPE_CHECKING", "if TYPE_CHECKING:", "    import os.path as _ospath", "else:", "    " + stmt]
    elif pl == "late_type_checking_import":
        # TYPE_CHECKING itself is imported late, after the first non-import statement
        L += ["import os", stmt, "VALUE = os.sep", "from typing import TYPE_CHECKING", "if TYPE_CHECKING:", "    import os.path as _ospath", "VALUE2 = 2"]
    elif pl == "next_to_if_on_call_attribute":
        # an ordinary module-level `if` whose test is an attribute of a call result (`if get_settings().debug:`)
        L += ["import os", stmt, "class _Settings:", "    debug = False", "def _settings():", "    return _Settings()", "if _settings().debug:", "    VALUE = os.sep", "if os.path.sep:", "    VALUE2 = 1", "if os.sep != '?':", "    VALUE3 = 1", "if not os.sep:", "    VALUE4 = 1"]
    elif pl == "in_try":
        L += ["import os", "try:", "    " + stmt, "except ImportError:", "    shp = Circle = C = S = None"]
    elif pl == "in_with":
        L += ["import os", "with open(os.devnull) as _f:", "    " + stmt]
    elif pl == "in_for":
        L += ["import os", "for _i in range(1):", "    " + stmt]
    elif pl == "in_class":
        L += ["import os", "class Holder:", "    " + (stmt if form != "from_star" else "import shp"), "    held = 1"]
        use = False  # bound as a class attribute, not a module global
    else:
        L += ["import os", stmt]
    L += ["", ""]
    L += ["def use_import():"]
    if pl == "in_function" and form != "from_star":
        L += ["    " + stmt]
    elif pl == "in_function":
        L += ["    import shp", "    Circle = shp.Circle"]
    if use or pl == "in_function":
        L += [f"    return {expr}"]
    else:
        L += ["    return -1"]
    L += ["", "", "def work(x, y=None):", "    return [x, y]", "", "", "def plain(z):", "    return z", "", "", "class Own:", "    pass", "", "", "RESULT = (use_import(), len(work(1)), plain(2))", ""]
    return "\n".join(L), expr


def make_traces(mod, kind: str):
    from typing import Dict as D
    from typing import List as L

    import shp
    import vfx.shapes as S
    from monkeytype.tracing import CallTrace

    from mcheck.oracles.stubeval import mk_atd

    f = mod.work
    if kind == "new_user_module":
        return [CallTrace(f, {"x": S.Derived, "y": type(None)}, L[S.Derived], None)], 0
    if kind == "typing_name":
        return [CallTrace(f, {"x": L[int], "y": int}, L[int], None)], 0
    if kind == "already_imported_name":
        return [CallTrace(f, {"x": shp.Circle, "y": type(None)}, shp.Circle, None)], 0
    if kind == "same_module_other_name":
        return [CallTrace(f, {"x": shp.Square, "y": shp.Circle}, L[shp.Square], None)], 0
    if kind == "no_new_import":
        return [CallTrace(mod.plain, {"z": mod.Own}, mod.Own, None)], 0
    if kind == "user_module_named_like_typing":
        import vfx.mytyping as MT

        return [CallTrace(f, {"x": MT.TT, "y": int}, MT.TT, None)], 0
    if kind == "same_short_name_in_submodule":
        import shp.sub

        return [CallTrace(f, {"x": shp.sub.Circle, "y": int}, int, None)], 0
    if kind == "same_short_name_other_module":
        import shpb

        return [CallTrace(f, {"x": shpb.Circle, "y": int}, int, None)], 0
    if kind == "typed_dict":
        return [CallTrace(f, {"x": mk_atd({"k": int}, {}), "y": S.Derived}, int, None)], 3
    raise ValueError(kind)


RUNTIME_OK = {("typing", None), ("__future__", "annotations")}


def check(src: str, stub: str, res: str, case: Dict[str, Any], plain: Optional[str] = None) -> List[Tuple[str, str, str]]:
    out: List[Tuple[str, str, str]] = []
    tag = f"{case['form']}@{case['placement']}"
    try:
        rtree = ast.parse(res)
    except SyntaxError as e:
        return [("invalid-python", "syntax", f"result does not parse: {e.msg} line {e.lineno}\n{res[:500]}")]
    otree, stree = ast.parse(src), ast.parse(stub)
    # 1. the __future__ import comes first (after a docstring)
    body = list(rtree.body)
    if body and isinstance(body[0], ast.Expr) and isinstance(getattr(body[0], "value", None), ast.Constant) and isinstance(body[0].value.value, str):
        body = body[1:]
    first = body[0] if body else None
    if not (isinstance(first, ast.ImportFrom) and first.module == "__future__" and any(a.name == "annotations" for a in first.names)):
        out.append(("future-import", "not-first", f"first statement after the docstring is {ast.unparse(first)[:80] if first is not None else None!r}, not the __future__ import"))
    oinv, rinv = AC.import_inventory(otree), AC.import_inventory(rtree)
    # 2. original imports stay where they were, with their aliases
    for item in oinv:
        if item not in rinv:
            moved = [r for r in rinv if r[:3] == item[:3]]
            sig = {"import_pkg": "plain-import-removed", "import_sub": "plain-import-removed", "import_as": "plain-import-removed", "from_import_as": "aliased-from-import-removed"}.get(case["form"], "original-import-moved-or-removed")
            out.append(("original-import", sig, f"import {item} of the source is {'now at ' + str([m[3] for m in moved]) if moved else 'gone'} in the result"))
    # 3. new annotation-only imports are confined
    stub_imps = AC.stub_imports(stree)
    # (an import is "of the original" only at the place where the original has it: a module-level copy of a name the source
    # imports inside a function or under TYPE_CHECKING is new)
    okeys = {i for i in oinv}
    for item in rinv:
        if item in okeys:
            continue
        module, name, asname, where = item
        if module in ("typing", "__future__"):
            continue
        if module == "mypy_extensions" and name == "TypedDict":
            if where != "module":
                out.append(("runtime-import", "typed-dict-base-confined", f"TypedDict (base class of the generated class) is imported only under {where}"))
            continue
        if where == "module":
            out.append(("confinement", "new-import-not-confined:" + case["stub"], f"new import {item[:3]} needed only by annotations sits at module level"))
    # 3b. whatever the stub imports for its annotations is imported SOMEWHERE in the result (module level, TYPE_CHECKING
    #     block, or bound by an import the source already had): an annotation must not lose its import on the way
    seen = rinv
    have = {(i[0], i[1]) for i in seen} | {(i[0], "*") for i in seen if i[1] == "*"}
    for smod, sname in sorted(stub_imps):
        if smod in ("typing", "__future__", "mypy_extensions") or smod == case.get("own_module"):
            continue
        if (smod, sname) in have or (smod, "*") in have or (smod, "") in have or any(i[0] == smod and i[1] == "" for i in seen):
            continue
        if any(i[0].startswith(smod.split(".")[0]) and i[1] == "" for i in seen):
            continue   # libcst may import the module (`import a.b`) instead of the name to avoid a clash
        out.append(("confinement", "stub-import-lost:" + case["stub"], f"the stub imports {sname} from {smod}; the result imports it nowhere (neither at module level nor under TYPE_CHECKING)"))
    # 3c. differential against the same application WITHOUT confinement: confinement moves the imports the application
    #     introduces, it never drops one - each import that the plain application adds is, in the confined result, either at
    #     module level or in the true branch of a module-level `if TYPE_CHECKING:`
    if plain is not None:
        try:
            pinv = AC.import_inventory(ast.parse(plain))
        except SyntaxError:
            pinv = []
        for item in pinv:
            if item in okeys or item[0] == "__future__":
                continue
            if not any(r[:3] == item[:3] and r[3] in ("module", "type_checking") for r in rinv):
                out.append(("confinement", "introduced-import-dropped:" + case["stub"], f"without confinement the application adds the import {item[:3]} (at {item[3]}); with confinement the result has it neither at module level nor under `if TYPE_CHECKING:`"))
    # 4. the result executes and behaves as before
    ns_o: Dict[str, Any] = {"__name__": "c16_orig"}
    ns_r: Dict[str, Any] = {"__name__": "c16_res"}
    if case.get("pkg"):
        ns_o = {"__name__": case["pkg"] + ".c16_orig", "__package__": case["pkg"]}
        ns_r = {"__name__": case["pkg"] + ".c16_res", "__package__": case["pkg"]}
    try:
        exec(compile(src, "<orig>", "exec"), ns_o)
    except Exception as e:  # noqa: BLE001
        return out + [("harness", "original-does-not-run", f"original raised {e!r}")]
    try:
        exec(compile(res, "<result>", "exec"), ns_r)
        if ns_r.get("RESULT") != ns_o.get("RESULT"):
            out.append(("behaviour", "result-differs", f"RESULT {ns_o.get('RESULT')!r} became {ns_r.get('RESULT')!r}"))
    except Exception as e:  # noqa: BLE001
        sig = "typed-dict-base-confined" if "TypedDict" in str(e) else ("import-removed" if isinstance(e, (NameError, AttributeError)) else type(e).__name__)
        out.append(("behaviour", sig, f"executing the result raises {type(e).__name__}: {e}"))
    return out


def all_cases() -> List[Tuple[str, str, bool, str, bool]]:
    # the generated sources carry no annotations, so overwrite=True differs from False only in libcst's import handling:
    # it is kept for the placements where imports interact most
    return [(pl, fo, u, sk, ow) for pl in PLACEMENTS for fo in FORMS for u in USES for sk in STUBKINDS for ow in (False, True) if not ow or pl in ("top", "in_type_checking", "type_checking_in_try")]


def run_case(res: Result, ctx: Ctx, ci: int, c, srcdir: Path) -> None:
    from monkeytype.cli import apply_stub_using_libcst
    from monkeytype.stubs import ExistingAnnotationStrategy as EAS
    from monkeytype.stubs import build_module_stubs_from_traces

    pl, fo, use, sk, ow = c
    src, expr = gen_source(pl, fo, use)
    modname = f"c16m_{ctx.seed}_{ci}"
    (srcdir / f"{modname}.py").write_text(src)
    importlib.invalidate_caches()
    mod = importlib.import_module(modname)
    case = {"ci": ci, "placement": pl, "form": fo, "use": use, "stub": sk, "overwrite": ow}
    res.states += 1
    try:
        traces, k = make_traces(mod, sk)
        stub = build_module_stubs_from_traces(traces, k, existing_annotation_strategy=EAS.IGNORE if ow else EAS.REPLICATE)[modname].render()
        result = apply_stub_using_libcst(stub=stub, source=src, overwrite_existing_annotations=ow, confine_new_imports_in_type_checking_block=True)
    except Exception as e:  # noqa: BLE001
        res.violate(Violation(ID, "apply-failed", type(e).__name__, case, f"raised {type(e).__name__}: {str(e)[:300]}"))
        del sys.modules[modname]
        return
    res.evaluations += 1
    res.validated += 1
    res.transitions += 4
    plain = None
    if not ctx.quick or pl in DIFF_PLACEMENTS:
        try:
            plain = apply_stub_using_libcst(stub=stub, source=src, overwrite_existing_annotations=ow, confine_new_imports_in_type_checking_block=False)
            res.transitions += 1
        except Exception:  # noqa: BLE001
            plain = None
    vs = check(src, stub, result, case, plain)
    for kind, sig, msg in vs:
        res.violate(Violation(ID, kind, sig, case, msg + f"\n--- source ---\n{src[:400]}\n--- stub ---\n{stub[:300]}\n--- result ---\n{result[:600]}"))
    if not vs:
        res.outcomes.add(hash(result.replace(modname, "M")))
    if "TYPE_CHECKING" in result:
        res.nontrivial_n += 1
        res.oblige("saw:type-checking-block", True)
    if ci % 97 == 0:
        res.sample({"case": case, "result_head": result[:300]})
    del sys.modules[modname]


def run_seq(res: Result, ctx: Ctx, qi: int, pl: str, fo: str, srcdir: Path, other_name: bool = False) -> None:
    """Two functions annotated by two successive applications (both with confinement): the second stub needs the import the
    first application already confined. The second result is judged against the FIRST result as its source."""
    from monkeytype.cli import apply_stub_using_libcst
    from monkeytype.stubs import build_module_stubs_from_traces
    from monkeytype.tracing import CallTrace

    import vfx.shapes as S
    from typing import List as L

    src, expr = gen_source(pl, fo, True)
    modname = f"c16q_{ctx.seed}_{qi}{'_o' if other_name else ''}"
    (srcdir / f"{modname}.py").write_text(src)
    importlib.invalidate_caches()
    mod = importlib.import_module(modname)
    case = {"ci": -1, "seq": qi, "placement": pl, "form": fo, "use": True, "stub": "second-apply-needs-" + ("another-name-of-the-confined-module" if other_name else "confined-import"), "overwrite": False, "other_name": other_name}
    Second = S.Derived2 if other_name else S.Derived
    res.states += 1
    try:
        stub1 = build_module_stubs_from_traces([CallTrace(mod.work, {"x": S.Derived, "y": type(None)}, L[S.Derived], None)], 0)[modname].render()
        stub2 = build_module_stubs_from_traces([CallTrace(mod.plain, {"z": Second}, Second, None)], 0)[modname].render()
        r1 = apply_stub_using_libcst(stub=stub1, source=src, overwrite_existing_annotations=False, confine_new_imports_in_type_checking_block=True)
        r2 = apply_stub_using_libcst(stub=stub2, source=r1, overwrite_existing_annotations=False, confine_new_imports_in_type_checking_block=True)
    except Exception as e:  # noqa: BLE001
        res.violate(Violation(ID, "apply-failed", type(e).__name__, case, f"raised {type(e).__name__}: {str(e)[:300]}"))
        del sys.modules[modname]
        return
    res.evaluations += 1
    res.validated += 1
    res.transitions += 4
    for kind, sig, msg in check(r1, stub2, r2, case):
        res.violate(Violation(ID, kind, "second-apply:" + sig, case, "second application on the result of the first: " + msg + f"\n--- first result ---\n{r1[:500]}\n--- second result ---\n{r2[:600]}"))
    # the SAME stub applied again to its own result (nothing is left to annotate): nothing may move to module level
    if not other_name:
        try:
            r3 = apply_stub_using_libcst(stub=stub1, source=r1, overwrite_existing_annotations=False, confine_new_imports_in_type_checking_block=True)
        except Exception as e:  # noqa: BLE001
            res.violate(Violation(ID, "apply-failed", type(e).__name__, dict(case, stub="same-stub-applied-again"), f"re-applying the stub raised {type(e).__name__}: {str(e)[:300]}"))
            r3 = None
        if r3 is not None:
            res.transitions += 2
            for kind, sig, msg in check(r1, stub1, r3, dict(case, stub="same-stub-applied-again")):
                res.violate(Violation(ID, kind, "re-apply:" + sig, dict(case, stub="same-stub-applied-again"), "the same stub applied again to its own result: " + msg + f"\n--- first result ---\n{r1[:500]}\n--- result of re-applying ---\n{r3[:600]}"))
    res.oblige("saw:second-apply", True)
    del sys.modules[modname]


REL_PLACEMENTS = ["top", "after_docstring", "after_future", "in_function", "after_code", "in_try"]
REL_STUBS = ["top_level_namesake_module", "new_user_module", "typing_name"]


def run_rel(res: Result, ctx: Ctx, ri: int, pl: str, sk: str, srcdir: Path) -> None:
    """The annotated module lives in a package and imports `from .rsub import Tri` (used at runtime); the stub brings the
    same short name from the TOP-LEVEL module rsub (or an unrelated import): the relative import stays, the module works."""
    from monkeytype.cli import apply_stub_using_libcst
    from monkeytype.stubs import build_module_stubs_from_traces
    from monkeytype.tracing import CallTrace

    import rsub
    import vfx.shapes as S
    from typing import List as L

    pkg = f"c16rel_{ctx.seed}_{ri}"
    (srcdir / pkg).mkdir(exist_ok=True)
    (srcdir / pkg / "__init__.py").write_text("")
    (srcdir / pkg / "rsub.py").write_text("class Tri:\n    def area(self):\n        return 1\n")
    src, expr = gen_source(pl, "from_relative", True)
    (srcdir / pkg / "mod.py").write_text(src)
    importlib.invalidate_caches()
    mod = importlib.import_module(pkg + ".mod")
    case = {"ci": -2, "rel": ri, "placement": pl, "form": "from_relative", "use": True, "stub": sk, "overwrite": False, "pkg": pkg}
    res.states += 1
    try:
        tr = {"top_level_namesake_module": CallTrace(mod.work, {"x": rsub.Tri, "y": type(None)}, rsub.Tri, None),
              "new_user_module": CallTrace(mod.work, {"x": S.Derived, "y": type(None)}, L[S.Derived], None),
              "typing_name": CallTrace(mod.work, {"x": L[int], "y": int}, L[int], None)}[sk]
        stub = build_module_stubs_from_traces([tr], 0)[pkg + ".mod"].render()
        result = apply_stub_using_libcst(stub=stub, source=src, overwrite_existing_annotations=False, confine_new_imports_in_type_checking_block=True)
    except Exception as e:  # noqa: BLE001
        res.violate(Violation(ID, "apply-failed", type(e).__name__, case, f"raised {type(e).__name__}: {str(e)[:300]}"))
        return
    res.evaluations += 1
    res.validated += 1
    res.transitions += 4
    for kind, sig, msg in check(src, stub, result, case):
        res.violate(Violation(ID, kind, "relative-import:" + sig, case, "package-relative source: " + msg + f"\n--- source ---\n{src[:400]}\n--- stub ---\n{stub[:300]}\n--- result ---\n{result[:600]}"))
    res.oblige("saw:relative-import-source", True)


def seq_cases() -> List[Tuple[str, str]]:
    return [(pl, fo) for pl in PLACEMENTS for fo in FORMS if pl != "in_class"]


CLI_CASES = [(pl, fo, sk) for pl in ("top", "after_docstring", "after_other_future", "in_type_checking", "late_type_checking_import") for fo in ("from_import", "import_pkg") for sk in ("new_user_module", "typing_name")]


def run_cli_case(res: Result, ctx: Ctx, xi: int, srcdir: Path) -> None:
    """The same application through the command line (`monkeytype apply --pep_563 module`, traces read from a store, the
    module file rewritten in place): the rewritten file is judged like any other result."""
    import io
    import os

    import mcfg
    from monkeytype import cli
    from monkeytype.stubs import build_module_stubs_from_traces
    from monkeytype.typing import NoOpRewriter

    pl, fo, sk = CLI_CASES[xi]
    src, _expr = gen_source(pl, fo, True)
    modname = f"c16x_{ctx.seed}_{xi}"
    path = srcdir / f"{modname}.py"
    path.write_text(src)
    importlib.invalidate_caches()
    mod = importlib.import_module(modname)
    case = {"ci": -3, "cli_case": xi, "placement": pl, "form": fo, "use": True, "stub": sk, "overwrite": False}
    res.states += 1
    res.evaluations += 1
    res.validated += 1
    res.transitions += 4
    try:
        traces, k = make_traces(mod, sk)
        db = str(srcdir / f"{modname}.sqlite3")
        if os.path.exists(db):
            os.unlink(db)
        mcfg.reset(db=db, k=k, rewriter=NoOpRewriter())
        mcfg.CONFIG.trace_store().add(traces)
        stub = build_module_stubs_from_traces(traces, k)[modname].render()
        out, err = io.StringIO(), io.StringIO()
        rc = cli.main(["-c", "mcfg:fresh()", "apply", "--pep_563", modname], out, err)
        result = path.read_text()
    except Exception as e:  # noqa: BLE001
        res.violate(Violation(ID, "apply-failed", "cli:" + type(e).__name__, case, f"`monkeytype apply --pep_563`: raised {type(e).__name__}: {str(e)[:300]}"))
        sys.modules.pop(modname, None)
        return
    if rc != 0:
        res.violate(Violation(ID, "apply-failed", "cli:nonzero", case, f"`monkeytype apply --pep_563` rc={rc}: {err.getvalue()[-300:]}"))
    else:
        for kind, sig, msg in check(src, stub, result, case):
            res.violate(Violation(ID, kind, "cli:" + sig, case, "via `monkeytype apply --pep_563`: " + msg + f"\n--- source ---\n{src[:400]}\n--- result ---\n{result[:600]}"))
    res.oblige("saw:cli-apply-pep563", True)
    sys.modules.pop(modname, None)


def history_pairs(quick: bool = False) -> List[Tuple[int, int]]:
    """Ordered pairs of case indices for histories of two applications to two DIFFERENT modules in one fresh process: one
    whose source already confines an import under `if TYPE_CHECKING:` (or holds it in the else branch) and one whose stub
    introduces that import anew - in both orders."""
    cs = all_cases()
    idx = {c: i for i, c in enumerate(cs)}
    firsts = [idx[(pl, fo, False, sk, False)] for pl in ("in_type_checking", "type_checking_else") for fo in ("from_import", "import_pkg", "from_import_as") for sk in ("new_user_module", "already_imported_name")]
    seconds = [idx[(pl, fo, True, sk, False)] for pl in ("top", "in_function", "after_future") for fo in ("from_import", "import_sub") for sk in ("new_user_module", "already_imported_name", "same_module_other_name")]
    if quick:
        firsts = [idx[(pl, fo, False, "already_imported_name", False)] for pl in ("in_type_checking", "type_checking_else") for fo in ("from_import", "import_pkg")]
        seconds = [idx[(pl, fo, True, sk, False)] for pl in ("top", "in_function") for fo in ("from_import", "import_sub") for sk in ("new_user_module", "already_imported_name")]
    return [(a, b) for a in firsts for b in seconds] + [(b, a) for a in firsts for b in seconds]


def run_history(ctx: Ctx, pair: Tuple[int, int]) -> Result:
    """(in a fresh process) apply to the module of case a, then to the module of case b; both judged as usual."""
    cs = all_cases()
    res = Result()
    srcdir = ctx.tmp / f"c16_h_{pair[0]}_{pair[1]}"
    srcdir.mkdir(exist_ok=True)
    sys.path.insert(0, str(srcdir))
    for ci in pair:
        sub = Result()
        run_case(sub, ctx, ci, cs[ci], srcdir)
        for v in sub.violations:
            v.case = dict(v.case, history=list(pair))
            v.sig = "two-modules-in-one-process:" + v.sig
            v.msg = f"history of applications to the modules of cases {list(pair)} in one process; at case {ci}: " + v.msg
        res.merge(sub)
    return res


def run_histories(ctx: Ctx) -> Result:
    import multiprocessing as mp

    from mcheck.core import par

    pairs = history_pairs(ctx.quick)
    total = Result()
    mpc = mp.get_context("fork")
    with mpc.Pool(ctx.workers, initializer=par._init, initargs=(run_history, ctx), maxtasksperchild=1) as pool:
        outs = pool.map(par._call, pairs, chunksize=1)
    for o in outs:
        if isinstance(o, tuple) and o and o[0] == "ERR":
            from mcheck.core.runner import HarnessError

            raise HarnessError("history worker crashed:\n" + o[1])
        total.merge(o)
    total.oblige("saw:two-module-histories", len(pairs) > 0)
    return total


def run(ctx: Ctx) -> Result:
    cs = all_cases()
    nshards = ctx.workers * 2

    def shard(ctx: Ctx, shi: int) -> Result:
        res = Result()
        srcdir = ctx.tmp / f"c16_{shi}"
        srcdir.mkdir(exist_ok=True)
        sys.path.insert(0, str(srcdir))
        for ci in range(shi, len(cs), nshards):
            run_case(res, ctx, ci, cs[ci], srcdir)
        sq = seq_cases()
        for qi in range(shi, len(sq), nshards):
            run_seq(res, ctx, qi, sq[qi][0], sq[qi][1], srcdir)
            if sq[qi][1] in ("import_pkg", "from_import"):
                run_seq(res, ctx, qi, sq[qi][0], sq[qi][1], srcdir, other_name=True)
        rl = [(pl, sk) for pl in REL_PLACEMENTS for sk in REL_STUBS]
        for ri in range(shi, len(rl), nshards):
            run_rel(res, ctx, ri, rl[ri][0], rl[ri][1], srcdir)
        for xi in range(shi, len(CLI_CASES), nshards):
            run_cli_case(res, ctx, xi, srcdir)
        return res

    res = run_shards(ctx, shard, list(range(nshards)))
    res.merge(run_histories(ctx))
    res.obligations.setdefault("saw:two-module-histories", False)
    res.obligations.setdefault("saw:cli-apply-pep563", False)
    res.obligations.setdefault("saw:type-checking-block", False)
    res.obligations.setdefault("saw:second-apply", False)
    res.obligations.setdefault("saw:relative-import-source", False)
    res.bounds.update({"placements": len(PLACEMENTS), "forms": len(FORMS), "uses": 2, "stub_kinds": len(STUBKINDS), "overwrite": 2, "cases": len(cs)})
    return res


def replay(case: Dict[str, Any], ctx: Ctx) -> List[Violation]:
    res = Result()
    srcdir = ctx.tmp / "c16_replay"
    srcdir.mkdir(exist_ok=True)
    sys.path.insert(0, str(srcdir))
    if case.get("history"):
        return run_history(ctx, tuple(case["history"])).violations
    if case.get("ci") == -3:
        run_cli_case(res, ctx, case["cli_case"], srcdir)
        return res.violations
    if case.get("ci") == -2:
        rl = [(pl, sk) for pl in REL_PLACEMENTS for sk in REL_STUBS]
        run_rel(res, ctx, case["rel"], rl[case["rel"]][0], rl[case["rel"]][1], srcdir)
        return res.violations
    if case.get("ci") == -1:
        sq = seq_cases()
        run_seq(res, ctx, case["seq"], sq[case["seq"]][0], sq[case["seq"]][1], srcdir, other_name=bool(case.get("other_name")))
        return res.violations
    cs = all_cases()
    run_case(res, ctx, case["ci"], cs[case["ci"]], srcdir)
    return res.violations
