"""C10 — stale or undecodable stored traces are skipped, never fatal.
Engine E1+E4 (differential): stores populated directly with rows = every subset of valid rows x every subset (size <= 2,
thorough <= 3) of 36 stale-row kinds x insertion orders, commands stub / stub -v / stub <qualname specifier> / apply;
oracle: output equals the output obtained from the decodable rows alone, exit status 0, skipped rows counted exactly."""
from __future__ import annotations

import io
import itertools
import json
import os
import re
import shutil
import sqlite3
import sys
from pathlib import Path
from typing import Any, Dict, List, Optional, Tuple

from mcheck.core.par import run_shards
from mcheck.core.runner import VERIF, Ctx, Result, Violation

ID = "C10"
RULE = (
    "rows = every subset of 4 valid rows x every subset of size 0..2 (thorough 0..3) of 36 stale kinds (module removed, "
    "submodule removed, parent not a package, function removed / now int / class / settable property / property without "
    "getter / local scope, argument / return / yield class removed, class name bound to int / dict / None / instance, "
    "nested in generics and TypedDict fields, unknown parameter names) x 3 insertion orders x commands {stub, stub -v, "
    "stub module:qualname, apply, apply -v}; state = one populated store, transition = one CLI invocation compared "
    "with the invocation on the decodable rows alone; non-trivial = store mixing decodable and stale rows"
)
EXPLANATION = "exhaustive bounded enumeration; differential oracle (state reached from elsewhere) on the real CLI"
ASSUMPTIONS = ["corrupt rows (invalid JSON, wrong arity) are outside the property's list of stale kinds", "identical rows are one trace (the store de-duplicates)"]

SRC = VERIF / "fixtures" / "stale_src"
M = "stale_fx.mod"
INT = {"module": "builtins", "qualname": "int"}
STR = {"module": "builtins", "qualname": "str"}


def T(module: str, qualname: str, elems=None) -> Dict[str, Any]:
    d: Dict[str, Any] = {"module": module, "qualname": qualname}
    if elems is not None:
        d["elem_types"] = elems
    return d


def row(module: str, qualname: str, args: Dict[str, Any], ret=None, yld=None) -> Tuple:
    return (module, qualname, json.dumps(args, sort_keys=True), None if ret is None else json.dumps(ret, sort_keys=True), None if yld is None else json.dumps(yld, sort_keys=True))


VALID: List[Tuple] = [
    row(M, "good1", {"a": INT}, INT),
    row(M, "good2", {"a": INT, "b": STR}, STR),
    row(M, "Cls.meth", {"self": T(M, "Cls"), "x": T(M, "Arg")}, T(M, "Arg")),
    row(M, "gen1", {"a": INT}, None, T(M, "Ret")),
]

TD = lambda fields: {"module": "monkeytype.typing", "qualname": "DUMMY_NAME", "is_typed_dict": True, "elem_types": fields}  # noqa: E731

# kind -> (row, decodable?, repaired row or None)
STALE: Dict[str, Tuple[Tuple, bool, Optional[Tuple]]] = {
    "module-removed": (row("stale_fx.gone", "f", {"a": INT}, INT), False, None),
    "submodule-removed": (row("stale_fx.sub.gone", "f", {"a": INT}, INT), False, None),
    "parent-not-package": (row("stale_fx.mod.inner", "f", {"a": INT}, INT), False, None),
    "intermediate-package-removed": (row("stale_fx.gone.models", "f", {"a": INT}, INT), False, None),
    "arg-class-intermediate-package-removed": (row(M, "good2", {"a": T("stale_fx.gone.models", "C"), "b": STR}, STR), False, None),
    "arg-class-local-scope-with-module-level-namesake": (row(M, "good1", {"a": T(M, "outer.<locals>.Arg")}, INT), False, None),
    "return-class-local-scope-with-module-level-namesake": (row(M, "Cls.meth", {"self": T(M, "Cls"), "x": INT}, T(M, "outer.<locals>.Ret")), False, None),
    "function-removed": (row(M, "removed_func", {"a": INT}, INT), False, None),
    "method-removed": (row(M, "Cls.removed", {"a": INT}, INT), False, None),
    "class-removed-method": (row(M, "GoneCls.meth", {"a": INT}, INT), False, None),
    "function-now-int": (row(M, "now_int", {"a": INT}, INT), False, None),
    "function-now-class": (row(M, "NowClass", {"a": INT}, INT), False, None),
    "function-now-settable-property": (row(M, "Cls.settable", {"self": T(M, "Cls")}, INT), False, None),
    "function-now-property-without-getter": (row(M, "Cls.nogetter", {"self": T(M, "Cls")}, INT), False, None),
    "function-now-property-with-deleter": (row(M, "Cls.deletable", {"self": T(M, "Cls")}, INT), False, None),
    "removed-parameter-with-removed-class": (row(M, "good1", {"zzz": T(M, "GoneClass"), "a": STR}, STR), False, None),
    "arg-class-module-removed-whose-name-is-a-prefix-of-the-traced-module": (row(M, "good1", {"a": T("stale_fx.mo", "C")}, INT), False, None),
    "return-class-package-removed-whose-name-is-a-prefix": (row(M, "Cls.meth", {"self": T(M, "Cls"), "x": INT}, T("stale_f", "C")), False, None),
    "function-in-local-scope": (row(M, "outer.<locals>.inner", {"a": INT}, INT), False, None),
    "function-now-cache-wrapper-around-a-local-function": (row(M, "now_cached_local", {"a": INT}, INT), False, None),
    "function-now-wraps-decorated-local-function": (row(M, "now_wrapped_local", {"a": INT}, INT), False, None),
    "arg-class-removed": (row(M, "good1", {"a": T(M, "GoneClass")}, INT), False, None),
    "arg-class-module-removed": (row(M, "good1", {"a": T("stale_fx.gone", "C")}, INT), False, None),
    "return-class-removed": (row(M, "good1", {"a": STR}, T(M, "GoneRet")), False, None),
    "yield-class-removed": (row(M, "gen1", {"a": STR}, None, T(M, "GoneYield")), False, None),
    "yield-class-removed-function-now-plain": (row(M, "good1", {"a": INT}, INT, T(M, "GoneYield")), False, None),
    "return-class-removed-on-generator": (row(M, "gen1", {"a": INT}, T(M, "GoneRet"), T(M, "Ret")), False, None),
    "class-name-now-int": (row(M, "good2", {"a": T(M, "now_int"), "b": STR}, STR), False, None),
    "class-name-now-dict": (row(M, "good2", {"a": T(M, "not_a_type"), "b": STR}, STR), False, None),
    "class-name-now-none": (row(M, "good2", {"a": STR, "b": STR}, T(M, "none_val")), False, None),
    "class-name-now-instance": (row(M, "Cls.meth", {"self": T(M, "Cls"), "x": T(M, "an_instance")}, INT), False, None),
    "class-name-now-function": (row(M, "good1", {"a": T(M, "good2")}, INT), False, None),
    "non-type-nested-in-generic": (row(M, "good1", {"a": T("typing", "List", [T(M, "now_int")])}, INT), False, None),
    "non-type-nested-in-dict-generic": (row(M, "good2", {"a": T("typing", "Dict", [STR, T(M, "not_a_type")]), "b": STR}, STR), False, None),
    "stale-class-nested-in-generic": (row(M, "good1", {"a": T("typing", "List", [T(M, "GoneClass")])}, INT), False, None),
    "stale-class-in-typed-dict-field": (row(M, "good1", {"a": TD({"required_fields": TD({"k": T(M, "GoneClass")}), "optional_fields": TD({})})}, INT), False, None),
    "unknown-parameter-names": (row(M, "good1", {"zzz": STR, "a": STR}, STR), True, row(M, "good1", {"a": STR}, STR)),
    "only-unknown-parameter-names": (row(M, "good2", {"gone_param": STR}, INT), True, row(M, "good2", {}, INT)),
}
KINDS = list(STALE)

TARGETS = {"stale_fx.gone.models": "intermediate-package-removed", "stale_fx.gone": "module-removed", "stale_fx.sub.gone": "submodule-removed", "stale_fx.mod.inner": "parent-not-package"}


def populate(db: str, rows: List[Tuple]) -> None:
    if os.path.exists(db):
        os.unlink(db)
    from monkeytype.db.sqlite import create_call_trace_table

    conn = sqlite3.connect(db)
    create_call_trace_table(conn)
    with conn:
        conn.executemany("INSERT INTO monkeytype_call_traces VALUES (?, ?, ?, ?, ?, ?)", [("2024-01-01 00:00:00.000000",) + r for r in rows])
    conn.close()


def run_cli(argv: List[str]) -> Tuple[Any, str, str]:
    from monkeytype import cli

    out, err = io.StringIO(), io.StringIO()
    try:
        rc = cli.main(["-c", "mcfg:fresh()"] + argv, out, err)
    except SystemExit as e:
        rc = f"SystemExit({e.code})"
    except BaseException as e:  # noqa: BLE001
        rc = f"raised {type(e).__name__}: {e}"
    return rc, out.getvalue(), err.getvalue()


def orders(rows: List[Tuple], stale: List[Tuple]) -> List[List[Tuple]]:
    a = rows + stale
    b = stale + rows
    c = [x for pair in itertools.zip_longest(stale, rows) for x in pair if x is not None]
    seen, out = set(), []
    for o in (a, b, c):
        if tuple(o) not in seen:
            seen.add(tuple(o))
            out.append(o)
    return out


def count_failures(err: str, verbose: bool) -> int:
    if verbose:
        return len([l for l in err.splitlines() if l.startswith("WARNING: Failed decoding trace")])
    m = re.search(r"^(\d+) traces failed to decode; use -v for details", err, re.M)
    return int(m.group(1)) if m else 0


def check_case(res: Result, ctx: Ctx, db: str, pkgdir: Path, vmask: int, kinds: Tuple[str, ...], do_apply: bool) -> None:
    import mcfg
    from monkeytype.typing import NoOpRewriter

    valid = [VALID[i] for i in range(len(VALID)) if vmask & (1 << i)]
    stale_rows = [STALE[k][0] for k in kinds]
    repaired = [STALE[k][2] for k in kinds if STALE[k][1]]
    decodable_equiv = valid + [r for r in repaired if r is not None]
    src_file = pkgdir / "stale_fx" / "mod.py"
    orig_src = (SRC / "stale_fx" / "mod.py").read_text()
    mcfg.reset(db=db, rewriter=NoOpRewriter())
    case_base = {"valid_mask": vmask, "kinds": list(kinds)}
    cmds: List[Tuple[str, List[str], str]] = [
        ("stub", ["stub", M], M), ("stub-v", ["-v", "stub", M], M), ("stub-sample-count", ["stub", "--sample-count", M], M), ("stub-spec", ["stub", M + ":good"], M), ("stub-spec-cls", ["-v", "stub", M + ":Cls"], M),
        ("stub-diff", ["stub", "--diff", M], M), ("stub-diff-v", ["-v", "stub", "--diff", M], M),
    ]
    if do_apply:
        cmds += [("apply", ["apply", M], M), ("apply-v", ["-v", "apply", M], M)]
    for k in kinds:
        for tmod, tk in TARGETS.items():
            if tk == k:
                cmds.append(("stub-removed-module", ["stub", tmod], tmod))
                cmds.append(("stub-removed-module-v", ["-v", "stub", tmod], tmod))
                cmds.append(("apply-removed-module", ["apply", tmod], tmod))

    def selected(rows: List[Tuple], argv: List[str], target: str) -> List[Tuple]:
        spec = argv[-1].split(":", 1)[1] if ":" in argv[-1] else None
        return [r for r in set(rows) if r[0] == target and (spec is None or r[1].startswith(spec))]

    # reference: decodable rows alone
    ref: Dict[str, Tuple[Any, str, str, str]] = {}
    populate(db, decodable_equiv)
    for name, argv, target in cmds:
        src_file.write_text(orig_src)
        rc, out, err = run_cli(argv)
        ref[name] = (rc, out, err, src_file.read_text())
    for oi, order in enumerate(orders(valid, stale_rows)):
        populate(db, order)
        for name, argv, target in cmds:
            src_file.write_text(orig_src)
            res.transitions += 1
            res.evaluations += 1
            res.validated += 1
            rc, out, err = run_cli(argv)
            after = src_file.read_text()
            case = dict(case_base, order=oi, cmd=name)
            verbose = "-v" in argv
            sel = selected(order, argv, target)
            undec = {STALE[k][0] for k in kinds if not STALE[k][1]}
            n_bad = len([r for r in sel if r in undec])
            n_good = len(sel) - n_bad
            kindsig = "+".join(sorted(k for k in kinds if STALE[k][0] in sel)) or "none"
            rrc, rout, rerr, rafter = ref[name]
            if rc != 0:
                res.violate(Violation(ID, "fatal", f"{kindsig}", case, f"`{' '.join(argv)}` -> {rc}; stderr: {err[-300:]}"))
                continue
            if out != rout:
                res.violate(Violation(ID, "output", f"{kindsig}", case, f"`{' '.join(argv)}` stdout differs from the decodable rows alone:\n--- got\n{out[:500]}\n--- want\n{rout[:500]}"))
            if after != rafter:
                res.violate(Violation(ID, "applied-file", f"{kindsig}", case, f"`{' '.join(argv)}` left a different file than the decodable rows alone"))
            if "--sample-count" in argv:
                # what the stub is "based on" is the decodable traces and nothing else
                cnt = sorted(l for l in err.splitlines() if l.startswith("Annotation for "))
                rcnt = sorted(l for l in rerr.splitlines() if l.startswith("Annotation for "))
                if cnt != rcnt:
                    res.violate(Violation(ID, "report", f"sample-count:{kindsig}", case, f"`{' '.join(argv)}` reports {cnt}, the decodable rows alone give {rcnt}"))
            if name in ("stub-v", "apply-v"):
                # the same command over a store of the project's own whose thunks offer nothing but to_trace()
                src_file.write_text(orig_src)
                mcfg.STATE["bare_thunks"] = True
                try:
                    rc_b, out_b, err_b = run_cli(argv)
                finally:
                    mcfg.STATE["bare_thunks"] = False
                res.transitions += 1
                if (rc_b, out_b, err_b) != (rc, out, err):
                    res.violate(Violation(ID, "fatal" if rc_b != 0 else "output", f"custom-store-thunks:{kindsig}", case, f"`{' '.join(argv)}` over a custom store whose thunks have only to_trace(): rc={rc_b}, stderr tail {err_b[-300:]!r}; over the SQLite store rc={rc}, stderr tail {err[-200:]!r}"))
                src_file.write_text(after)
            got_bad = count_failures(err, verbose)
            if "--diff" in argv and verbose and got_bad == 2 * n_bad:
                got_bad = n_bad   # (--diff decodes the rows once per annotation strategy: each skipped row is named twice)
            if got_bad != n_bad:
                res.violate(Violation(ID, "report", f"count:{kindsig}", case, f"`{' '.join(argv)}` reported {got_bad} skipped traces, {n_bad} rows are undecodable; stderr: {err[-300:]}"))
            if n_good == 0 and "No traces found" not in err:
                res.violate(Violation(ID, "report", f"no-traces-message:{kindsig}", case, f"`{' '.join(argv)}` with no decodable row did not say so; stderr: {err[-300:]}"))
            if n_good > 0 and "No traces found" in err:
                res.violate(Violation(ID, "report", f"spurious-no-traces:{kindsig}", case, f"`{' '.join(argv)}` says no traces although {n_good} rows decode"))
            if n_bad and n_good:
                res.nontrivial_n += 1
                res.oblige("saw:mixed-good-and-stale", True)
            if n_bad and not n_good:
                res.oblige("saw:only-stale", True)
            res.outcomes.add(hash((name, out, got_bad)))
    src_file.write_text(orig_src)


def cases(tier: str) -> List[Tuple[int, Tuple[str, ...]]]:
    maxk = 2 if tier == "quick" else 3
    out = []
    kinds_sets = [c for r in range(0, maxk + 1) for c in itertools.combinations(KINDS, r)]
    for ks in kinds_sets:
        masks = range(16) if len(ks) <= 1 else ((0, 1, 5, 15) if tier == "quick" or len(ks) == 3 else range(16))
        for vm in masks:
            out.append((vm, ks))
    return out


def reload_stage(ctx: Ctx) -> Result:
    """One process: `stub` on a store whose rows are all decodable; then the source changes (one traced function becomes an
    int, one a class) and the module is reloaded IN PLACE; `stub` / `stub -v` / `apply` again: the rows of the names that are
    no longer functions are skipped and counted exactly as in a process that never saw the old source."""
    import importlib

    res = Result()
    pkgdir = ctx.tmp / "c10_reload"
    if not pkgdir.exists():
        shutil.copytree(SRC, pkgdir)
    sys.path.insert(0, str(pkgdir))
    try:
        for m in [m for m in sys.modules if m == "stale_fx" or m.startswith("stale_fx.")]:
            del sys.modules[m]
        import mcfg
        from monkeytype.typing import NoOpRewriter

        db = str(pkgdir / "db_reload.sqlite3")
        mcfg.reset(db=db, rewriter=NoOpRewriter())
        rows = [VALID[0], VALID[1], row(M, "good1", {"a": STR}, STR)]
        populate(db, rows)
        src_file = pkgdir / "stale_fx" / "mod.py"
        orig = src_file.read_text()
        rc0, out0, err0 = run_cli(["stub", M])
        changed = orig.replace("def good1(a):\n    return a\n", "good1 = 3\n").replace("def good2(a, b=None):\n    return b\n", "class good2:\n    def __init__(self, a=None, b=None):\n        pass\n")
        if changed == orig or rc0 != 0 or "good1" not in out0:
            raise AssertionError("reload stage fixture out of date")
        src_file.write_text(changed)
        importlib.reload(sys.modules[M])
        for name, argv in (("stub", ["stub", M]), ("stub-v", ["-v", "stub", M]), ("apply", ["apply", M])):
            res.states += 1
            res.transitions += 1
            res.evaluations += 1
            res.validated += 1
            rc, out, err = run_cli(argv)
            case = {"valid_mask": -1, "kinds": ["function-became-non-function-and-module-reloaded"], "cmd": name, "reload": True}
            n_bad = count_failures(err, "-v" in argv)
            if rc != 0 and "No traces found" not in err:
                res.violate(Violation(ID, "fatal", "source-changed-and-reloaded", case, f"`{' '.join(argv)}` -> {rc}; stderr {err[-300:]}"))
            elif "good1" in out or "good2" in out.replace("good2:", "") and "def good2" in out:
                res.violate(Violation(ID, "output", "source-changed-and-reloaded", case, f"`{' '.join(argv)}` after good1 became an int and good2 a class (module reloaded in place) still stubs them:\n{out[:400]}"))
            elif n_bad != 3:
                res.violate(Violation(ID, "report", "count:source-changed-and-reloaded", case, f"`{' '.join(argv)}` reported {n_bad} skipped traces, 3 rows are undecodable now; stderr {err[-300:]}"))
            src_file.write_text(changed)
        src_file.write_text(orig)
        res.oblige("saw:source-changed-and-reloaded", True)
    finally:
        for m in [m for m in sys.modules if m == "stale_fx" or m.startswith("stale_fx.")]:
            del sys.modules[m]
        sys.path.remove(str(pkgdir))
    return res


def run(ctx: Ctx) -> Result:
    cs = cases(ctx.tier)
    nshards = ctx.workers * 2

    def shard(ctx: Ctx, si: int) -> Result:
        res = Result()
        pkgdir = ctx.tmp / f"c10_{si}"
        if not pkgdir.exists():
            shutil.copytree(SRC, pkgdir)
        sys.path.insert(0, str(pkgdir))
        db = str(pkgdir / "db.sqlite3")
        for i in range(si, len(cs), nshards):
            vm, ks = cs[i]
            res.states += 1
            check_case(res, ctx, db, pkgdir, vm, ks, do_apply=(i % 4 == 0 if ctx.tier == "quick" else (i % 6 == 0 or len(ks) <= 1)))
            if i % 211 == 0:
                res.sample({"valid_rows": [VALID[j][1] for j in range(4) if vm & (1 << j)], "stale_kinds": list(ks)})
        return res

    res = run_shards(ctx, shard, list(range(nshards)))
    res.merge(reload_stage(ctx))
    res.obligations.setdefault("saw:source-changed-and-reloaded", False)
    res.obligations.setdefault("saw:mixed-good-and-stale", False)
    res.obligations.setdefault("saw:only-stale", False)
    res.bounds.update({"stale_kinds": len(KINDS), "max_stale_per_store": 2 if ctx.quick else 3, "valid_rows": len(VALID), "stores": len(cs)})
    return res


def replay(case: Dict[str, Any], ctx: Ctx) -> List[Violation]:
    if case.get("reload"):
        return reload_stage(ctx).violations
    res = Result()
    pkgdir = ctx.tmp / "c10_replay"
    if not pkgdir.exists():
        shutil.copytree(SRC, pkgdir)
    sys.path.insert(0, str(pkgdir))
    check_case(res, ctx, str(pkgdir / "db.sqlite3"), pkgdir, case["valid_mask"], tuple(case["kinds"]), do_apply=True)
    return res.violations
