"""C17 — only code the filter admits, outside __main__, is ever recorded.
E1: every .py file under the three library roots (and their symlinked spellings), frozen/builtin code objects,
synthetic file names, generated user modules; allow-lists of 0..3 names.  E3: histories over the filter's cache
(ordered pairs/triples of calls on equal code objects living in files with different verdicts, from a cleared cache).
End to end: `monkeytype run` of generated scripts (script functions are __main__), every custom filter over the 64
subsets of a 6-function program."""
from __future__ import annotations

import importlib
import io
import itertools
import os
import sys
import sysconfig
from pathlib import Path
from typing import Any, Dict, List, Optional, Tuple

from mcheck.core.par import run_shards
from mcheck.core.runner import Ctx, HarnessError, Result, Violation

ID = "C17"
RULE = (
    "P: one code object per .py file under stdlib/purelib/platlib (thorough: every code object of every file really "
    "compiled), each also through the lib64 symlink spelling, frozen/builtin module code, synthetic names, generated user "
    "files (direct and through a symlink into site-packages contents); A: allow-lists = every subset of size 0..3 of 7 "
    "names x a path sample; C: from a cleared cache every ordered pair and triple of calls on equal code objects whose "
    "files have different verdicts; R: monkeytype run of generated scripts; F: all 64 subset filters of a 6-function "
    "program; state = (file or history), transition = one filter call / traced call judged by the independent path oracle"
)
EXPLANATION = "exhaustive enumeration of the installed interpreter's file universe and of filter-cache histories"
ASSUMPTIONS = ["allow-list names are package/module names below the import root (names of directories above a user file's root are outside the alphabet)"]

ROOTS = sorted({os.path.realpath(sysconfig.get_path(n)) for n in ("stdlib", "purelib", "platlib")})


def oracle(filename: str, allow: Optional[List[str]] = None) -> bool:
    if not filename or filename[0] == "<":
        return False
    real = os.path.realpath(filename)
    under = [r for r in ROOTS if real == r or real.startswith(r + os.sep)]
    if allow is None:
        return not under
    if under:
        rels = {tuple(Path(real).relative_to(r).parts) for r in under}
    else:
        rels = {tuple(Path(real).parts)}
    stem = Path(real).stem
    return any(m == stem or any(m in rel for rel in rels) for m in allow)


def template():
    def tmpl(a, b=1):
        return a

    return tmpl.__code__


_UNIQ = [1000]


def uniq(code, filename: str):
    """A code object for `filename` that is unequal to every other one handed out (so that only part C, which wants
    equal code objects, exercises the equality-keyed cache)."""
    _UNIQ[0] += 1
    return code.replace(co_filename=filename, co_firstlineno=_UNIQ[0])


def clear_cache() -> None:
    from monkeytype import config

    f = config.default_code_filter
    if hasattr(f, "cache_clear"):
        f.cache_clear()
    for name in dir(config):
        obj = getattr(config, name)
        if hasattr(obj, "cache_clear"):
            obj.cache_clear()
        elif isinstance(obj, dict) and name.startswith("_") and not name.startswith("__"):
            obj.clear()


def lib_files() -> List[str]:
    out = []
    for r in ROOTS:
        for dp, dn, fn in os.walk(r):
            dn.sort()
            for f in sorted(fn):
                if f.endswith(".py"):
                    out.append(os.path.join(dp, f))
    return out


def alt_spellings(path: str) -> List[str]:
    """Other spellings of a library path through symlinks that exist on this machine (e.g. <venv>/lib64 -> lib)."""
    out = []
    for r in ROOTS:
        if path.startswith(r + os.sep):
            parts = Path(r).parts
            for i in range(1, len(parts)):
                parent = Path(*parts[:i])
                try:
                    for e in os.scandir(parent):
                        if e.is_symlink() and os.path.realpath(e.path) == str(Path(*parts[: i + 1])):
                            out.append(str(Path(e.path, *parts[i + 1 :], *Path(path).relative_to(r).parts)))
                except OSError:
                    pass
    return out


def make_user_tree(tmp: Path, tag: str) -> Dict[str, str]:
    d = tmp / f"user_{tag}"
    (d / "app" / "sub").mkdir(parents=True, exist_ok=True)
    files = {
        "mod": d / "usermod.py",
        "pkgmod": d / "app" / "core.py",
        "submod": d / "app" / "sub" / "leaf.py",
        "json_named": d / "json.py",            # same stem as a stdlib module
        "nsmod": d / "nsp" / "plugins" / "tool.py",   # PEP 420 namespace packages: no __init__.py anywhere on the way
        "nsmixed": d / "app" / "nsinner" / "leaf2.py",   # a namespace level below a regular package
    }
    (d / "nsp" / "plugins").mkdir(parents=True, exist_ok=True)
    (d / "app" / "nsinner").mkdir(parents=True, exist_ok=True)
    for p in files.values():
        p.write_text("def f(a, b=1):\n    return a\n")
    (d / "app" / "__init__.py").write_text("")
    (d / "app" / "sub" / "__init__.py").write_text("")
    # user-dir symlink -> a site-packages file; and a user-dir symlink -> user file
    sp = [f for f in lib_files() if "site-packages" in f and f.endswith("six.py")] or [f for f in lib_files() if "site-packages" in f][:1]
    link = d / "link_to_lib.py"
    if not link.exists():
        os.symlink(sp[0], link)
    link2 = d / "link_to_user.py"
    if not link2.exists():
        os.symlink(files["mod"], link2)
    out = {k: str(v) for k, v in files.items()}
    out["link_to_lib"] = str(link)
    out["link_to_user"] = str(link2)
    return out


def part_paths(ctx: Ctx) -> Result:
    files = lib_files()
    if len(files) < 1000:
        raise HarnessError(f"only {len(files)} library files found")
    nshards = ctx.workers

    def work(ctx: Ctx, si: int) -> Result:
        from monkeytype.config import default_code_filter

        res = Result()
        t = template()
        for i in range(si, len(files), nshards):
            f = files[i]
            spell = [f] + (alt_spellings(f) if i % 5 == 0 or not ctx.quick else [])
            for sp in spell:
                res.states += 1
                res.transitions += 1
                res.evaluations += 1
                res.validated += 1
                got = default_code_filter(uniq(t, sp))
                want = oracle(sp)
                if got != want:
                    res.violate(Violation(ID, "verdict", "library-file-admitted" if got else "file-rejected", {"part": "P", "file": sp}, f"default_code_filter({sp}) = {got}, oracle {want}"))
                if sp != f:
                    res.oblige("P:symlinked-spelling-of-library-path", True)
            if not ctx.quick:
                # every code object of the file really compiled
                try:
                    src = open(f, "rb").read()
                    top = compile(src, f, "exec", dont_inherit=True)
                except Exception:  # noqa: BLE001
                    continue
                stack = [top]
                while stack:
                    c = stack.pop()
                    res.transitions += 1
                    res.evaluations += 1
                    if default_code_filter(c) is not False:
                        res.violate(Violation(ID, "verdict", "library-file-admitted", {"part": "P", "file": f, "code": c.co_name}, f"code {c.co_name} of {f} admitted"))
                    stack += [k for k in c.co_consts if hasattr(k, "co_code")]
            if i % 997 == 0:
                res.sample({"part": "P", "file": f, "verdict": False})
        # the verdict does not depend on where the process happens to stand: a sample of the same files judged again with
        # the working directory at the file-system root, at each library root and at the parent of each
        here = os.getcwd()
        try:
            for cwd in ["/"] + ROOTS + sorted({os.path.dirname(r) for r in ROOTS}):
                if not os.path.isdir(cwd):
                    continue
                os.chdir(cwd)
                clear_cache()
                for i in range(si, len(files), nshards * 25):
                    f = files[i]
                    res.states += 1
                    res.transitions += 1
                    res.evaluations += 1
                    res.validated += 1
                    got = default_code_filter(uniq(t, f))
                    if got != oracle(f):
                        res.violate(Violation(ID, "verdict", "library-file-admitted:working-directory" if got else "file-rejected:working-directory", {"part": "P", "file": f, "cwd": cwd}, f"with the working directory at {cwd}: default_code_filter({f}) = {got}, oracle {oracle(f)}"))
                res.oblige("P:working-directory-above-the-libraries", True)
        finally:
            os.chdir(here)
            clear_cache()
        return res

    res = run_shards(ctx, work, list(range(nshards)))
    res.bounds["P_library_files"] = len(files)
    return res


def part_misc(ctx: Ctx) -> Result:
    """Frozen/builtin code, synthetic names, user files, symlinks, allow-lists, cache histories."""
    from monkeytype.config import default_code_filter

    res = Result()
    t = template()
    # frozen / builtin modules' code objects
    n = 0
    for name, mod in sorted(sys.modules.items()):
        for attr in list(vars(mod).values()) if hasattr(mod, "__dict__") else []:
            code = getattr(attr, "__code__", None)
            if code is not None and hasattr(code, "co_filename") and (not code.co_filename or code.co_filename[0] == "<"):
                n += 1
                res.transitions += 1
                res.evaluations += 1
                if default_code_filter(code):
                    res.violate(Violation(ID, "verdict", "synthetic-filename-admitted", {"part": "P", "file": code.co_filename}, f"{code.co_filename} admitted"))
    res.bounds["P_frozen_code_objects"] = n
    for fn in ["<string>", "<frozen importlib._bootstrap>", "", "<stdin>", "<ipython-input-1>", "<doctest x[0]>"]:
        res.transitions += 1
        res.evaluations += 1
        try:
            verdict = default_code_filter(t.replace(co_filename=fn, co_name="syn" + str(len(fn))))
        except Exception as e:  # noqa: BLE001
            res.violate(Violation(ID, "exception", "filter-raises", {"part": "P", "file": fn}, f"default_code_filter raised {e!r} for file name {fn!r} (the filter runs outside the tracer's try/except)"))
            continue
        if verdict:
            res.violate(Violation(ID, "verdict", "synthetic-filename-admitted", {"part": "P", "file": fn}, f"{fn!r} admitted"))
    user = make_user_tree(ctx.tmp, "misc")
    # paths that only *look* like library paths (string prefixes, dot-dot escapes); the filter needs no existing file
    near = {}
    for ri, r in enumerate(ROOTS):
        near[f"near{ri}:suffix-x"] = r + "x/mod.py"
        near[f"near{ri}:suffix-dash"] = r + "-extra/pkg/mod.py"
        near[f"near{ri}:shorter"] = r[:-1] + "/mod.py"
        near[f"near{ri}:parent"] = str(Path(r).parent / "mod.py")
        near[f"near{ri}:dotdot-escape"] = r + "/../outside_mod.py"
        near[f"near{ri}:dotdot-back-in"] = r + "/../" + Path(r).name + "/inside_mod.py"
        near[f"near{ri}:root-itself-as-file"] = r + ".py"
    for key, path in near.items():
        res.states += 1
        res.transitions += 1
        res.evaluations += 1
        res.validated += 1
        got = default_code_filter(uniq(t, path))
        want = oracle(path)
        if got != want:
            res.violate(Violation(ID, "verdict", "near-library-path:" + key.split(":")[1], {"part": "U", "key": key}, f"default_code_filter({path}) = {got}, oracle {want}"))
        res.oblige(f"U:near-root-path-{'admitted' if want else 'rejected'}", True)
    for key, path in user.items():
        res.states += 1
        res.transitions += 1
        res.evaluations += 1
        res.validated += 1
        clear_cache()
        got = default_code_filter(uniq(t, path))
        want = oracle(path)
        if got != want:
            res.violate(Violation(ID, "verdict", f"user-file:{key}", {"part": "U", "key": key}, f"default_code_filter({path}) = {got}, oracle {want}"))
        res.oblige(f"U:{key}={want}", True)
    # allow-lists
    lib = lib_files()
    sample = [f for f in lib if f.endswith(("json/decoder.py", "six.py", "yaml/__init__.py", "os.py", "_pytest/main.py", "click/core.py"))][:8] + list(user.values())
    sample += ["<string>", "<frozen importlib._bootstrap>", "<stdin>"]   # synthetic names are never admitted, allow-list or not
    names = ["json", "six", "yaml", "app", "usermod", "core", "absent_name", Path(os.getcwd()).name or "verif", "<string>", "nsp", "plugins", "nsinner"]
    old = os.environ.get("MONKEYTYPE_TRACE_MODULES")
    try:
        for k in (0, 1, 2, 3):
            for allow in itertools.combinations(names, k):
                os.environ["MONKEYTYPE_TRACE_MODULES"] = ",".join(allow)
                clear_cache()
                for path in sample:
                    res.states += 1
                    res.transitions += 1
                    res.evaluations += 1
                    res.validated += 1
                    got = default_code_filter(uniq(t, path))
                    want = oracle(path, list(allow) if allow else [""])
                    if got != want:
                        res.violate(Violation(ID, "verdict", "allow-list", {"part": "A", "allow": list(allow), "path": path}, f"allow={allow} {path}: filter {got}, oracle {want}"))
                    if want:
                        res.oblige("A:allow-list-admits-library-package" if not path.startswith(str(ctx.tmp)) else "A:allow-list-admits-user-module", True)
                    else:
                        res.oblige("A:allow-list-rejects", True)
        # names that are directory components of the library prefix itself (e.g. `lib`, `python3.12`): a package of that
        # name may be listed, but that must not admit the whole library tree
        prefix_names = sorted({part for r in ROOTS for part in Path(r).parts if part not in ("/",)})
        lib_sample = [p_ for p_ in sample if any(p_.startswith(r + os.sep) for r in ROOTS)]
        for nm in prefix_names:
            os.environ["MONKEYTYPE_TRACE_MODULES"] = nm
            clear_cache()
            for path in lib_sample:
                res.states += 1
                res.transitions += 1
                res.evaluations += 1
                res.validated += 1
                got = default_code_filter(uniq(t, path))
                want = oracle(path, [nm])
                if got != want:
                    res.violate(Violation(ID, "verdict", "allow-list-prefix-component", {"part": "A", "allow": [nm], "path": path}, f"allow=({nm!r},) {path}: filter {got}, oracle {want}"))
        res.oblige("A:allow-list-name-equal-to-prefix-component", bool(prefix_names and lib_sample))
    finally:
        if old is None:
            os.environ.pop("MONKEYTYPE_TRACE_MODULES", None)
        else:
            os.environ["MONKEYTYPE_TRACE_MODULES"] = old
        clear_cache()
    res.sample({"part": "A", "allow_list_names": names, "paths": len(sample)})
    # cache histories: equal code objects, different files
    libf = [f for f in lib if f.endswith("json/decoder.py")][0]
    cands = {"lib": libf, "user": user["mod"], "user2": user["pkgmod"], "syn": "<string>", "lnk": user["link_to_lib"]}
    keys = list(cands)
    hists = [p for r in (2, 3) for p in itertools.permutations(keys, r)]
    for h in hists:
        clear_cache()
        res.states += 1
        res.validated += 1
        for i, kname in enumerate(h):
            res.transitions += 1
            res.evaluations += 1
            got = default_code_filter(t.replace(co_filename=cands[kname]))
            want = oracle(cands[kname])
            if got != want:
                res.violate(Violation(ID, "cache", "verdict-depends-on-call-history", {"part": "C", "history": list(h)}, f"after calls on {h[:i]} the verdict for {cands[kname]} is {got}, oracle {want} (equal code objects, different files)"))
                break
    res.bounds["C_histories"] = len(hists)
    res.oblige("C:equal-code-different-verdicts", t.replace(co_filename=libf) == t.replace(co_filename=user["mod"]) and oracle(libf) != oracle(user["mod"]))
    res.sample({"part": "C", "history": list(hists[5])})
    clear_cache()
    return res


PROGRAM = '''
import json
import {mod} as M

def main_helper(x):
    return M.f0(x)

class ScriptClass:
    def __init__(self, v):
        self.v = v

    def method(self, x):
        return M.f0(x)

    @staticmethod
    def smethod(x):
        return x

    @classmethod
    def cmethod(cls, x):
        return x

def outer_in_script(x):
    def inner_in_script(y):
        return y
    return inner_in_script(x)

def main_entry():
    M.use_internal_names()
    out = [main_helper(1), M.f1("a"), M.K().m(2), M.K.cm(3), M.K.sm(4), json.dumps([1])]
    out += [ScriptClass(1).method(2), ScriptClass.smethod(3), ScriptClass.cmethod(4), outer_in_script(5)]
    return out

RESULT = main_entry()
'''

MODULE = '''
def f0(x):
    return x


# functions that merely share a name with something inside MonkeyType are ordinary functions
def trace(x):
    return x


def trace_calls(x):
    return x


def trace_types(x):
    return x


def handle_call(x):
    return x


class Router:
    def trace(self, x):
        return x

    def log(self, x):
        return x

    def flush(self):
        return None


def use_internal_names():
    r = Router()
    return [trace(1), trace_calls(2), trace_types(3), handle_call(4), r.trace(5), r.log(6), r.flush()]

def f1(x):
    return [x]

def f2(x):
    return f0(x)

class K:
    def m(self, x):
        return f2(x)

    @classmethod
    def cm(cls, x):
        return x

    @staticmethod
    def sm(x):
        return x
'''


def part_run(ctx: Ctx) -> Result:
    """`monkeytype run script.py` with the default config (default filter): rows <=> admitted and module != __main__."""
    import mcfg
    from monkeytype import cli
    from monkeytype.config import default_code_filter

    res = Result()
    d = ctx.tmp / "runprog"
    d.mkdir(exist_ok=True)
    sys.path.insert(0, str(d))
    modname = f"c17prog_{ctx.seed}"
    (d / f"{modname}.py").write_text(MODULE)
    script = d / "script_main.py"
    script.write_text(PROGRAM.format(mod=modname))
    db = str(d / "run.sqlite3")
    mcfg.reset(db=db)
    clear_cache()
    out, err = io.StringIO(), io.StringIO()
    res.states += 1
    res.validated += 1
    res.evaluations += 1
    rc = cli.main(["-c", "mcfg:fresh()", "run", str(script)], out, err)
    store = mcfg.CONFIG.trace_store()
    mods = sorted(store.list_modules())
    rows = {(t.module, t.qualname) for m in mods for t in store.filter(m)}
    res.transitions += len(rows) + 1
    want = {(modname, q) for q in ("f0", "f1", "f2", "K.m", "K.cm", "K.sm", "trace", "trace_calls", "trace_types", "handle_call", "Router.trace", "Router.log", "Router.flush", "use_internal_names")}
    case = {"part": "R"}
    if rc != 0:
        res.violate(Violation(ID, "run", "nonzero", case, f"run rc={rc} {err.getvalue()[:300]}"))
    if any(m == "__main__" or m.startswith("__main__") for m, _ in rows):
        res.violate(Violation(ID, "run", "main-recorded", case, f"__main__ functions recorded: {sorted(rows)}"))
    extra = {r for r in rows if r[0] not in (modname,) and not r[0].startswith("__main__")}
    if extra:
        res.violate(Violation(ID, "run", "library-code-recorded", case, f"rows from rejected code: {sorted(extra)[:5]}"))
    missing = want - rows
    if missing:
        res.violate(Violation(ID, "run", "admitted-not-recorded", case, f"admitted calls not recorded: {sorted(missing)} (rows: {sorted(rows)})"))
    res.oblige("R:script-functions-ran-as-__main__", True)
    # the CLI's own listing of recorded modules, and `run -m <module>` (the module then IS __main__)
    out2, err2 = io.StringIO(), io.StringIO()
    cli.main(["-c", "mcfg:fresh()", "list-modules"], out2, err2)
    listed = sorted(x for x in out2.getvalue().split("\n") if x)
    res.transitions += 1
    if listed != sorted({m for m, _ in rows}):
        res.violate(Violation(ID, "run", "list-modules-differs", case, f"`list-modules` prints {listed}, the store holds rows of {sorted({m for m, _ in rows})}"))
    runmod = f"c17runm_{ctx.seed}"
    (d / f"{runmod}.py").write_text(PROGRAM.format(mod=modname))
    db2 = str(d / "run_m.sqlite3")
    mcfg.reset(db=db2)
    clear_cache()
    out3, err3 = io.StringIO(), io.StringIO()
    res.states += 1
    res.evaluations += 1
    try:
        rc3 = cli.main(["-c", "mcfg:fresh()", "run", "-m", runmod], out3, err3)
    except SystemExit as e:
        rc3 = f"SystemExit({e.code})"
    store3 = mcfg.CONFIG.trace_store()
    rows3 = {(t.module, t.qualname) for m in store3.list_modules() for t in store3.filter(m)}
    if rc3 != 0:
        res.violate(Violation(ID, "run", "run-m-nonzero", case, f"run -m rc={rc3} {err3.getvalue()[:200]}"))
    if any(m.startswith("__main__") or m == runmod for m, _ in rows3):
        res.violate(Violation(ID, "run", "main-recorded", case, f"`run -m`: functions of the module run as __main__ were recorded: {sorted(rows3)[:6]}"))
    if want - rows3:
        res.violate(Violation(ID, "run", "admitted-not-recorded", case, f"`run -m`: admitted calls not recorded: {sorted(want - rows3)}"))
    # two sessions of the DEFAULT configuration (`monkeytype.trace()` without arguments) in one process, every ordered pair
    # of allow-list settings: each session obeys the MONKEYTYPE_TRACE_MODULES that is in force when it runs
    import monkeytype as _mt
    from monkeytype.db.sqlite import SQLiteStore as _Store

    settings = [None, "json", modname, f"json,{modname}"]
    old_env = {k_: os.environ.get(k_) for k_ in ("MONKEYTYPE_TRACE_MODULES", "MT_DB_PATH")}
    modobj = importlib.import_module(modname)
    try:
        for a1 in settings:
            for a2 in settings:
                seen_pair = []
                for si_, allow in enumerate((a1, a2)):
                    dbs = str(d / f"sess_{settings.index(a1)}_{settings.index(a2)}_{si_}.sqlite3")
                    os.environ["MT_DB_PATH"] = dbs
                    if allow is None:
                        os.environ.pop("MONKEYTYPE_TRACE_MODULES", None)
                    else:
                        os.environ["MONKEYTYPE_TRACE_MODULES"] = allow
                    clear_cache()
                    with _mt.trace():
                        modobj.f0(1)
                        modobj.K().m(2)
                        __import__("json").dumps([1])
                    st_ = _Store.make_store(dbs)
                    seen_pair.append({(t.module, t.qualname) for m_ in st_.list_modules() for t in st_.filter(m_)})
                    st_.conn.close()
                res.states += 1
                res.transitions += 2
                res.evaluations += 1
                res.validated += 1
                for si_, allow in enumerate((a1, a2)):
                    rows_ = seen_pair[si_]
                    want_user = allow is None or modname in allow.split(",")
                    want_json = allow is not None and "json" in allow.split(",")
                    got_user = (modname, "f0") in rows_ and (modname, "K.m") in rows_
                    got_json = any(m_.startswith("json") for m_, _ in rows_)
                    if got_user != want_user or got_json != want_json:
                        res.violate(Violation(ID, "run", "default-config-sessions:allow-list-of-another-session", dict(case, allow=[a1, a2], session=si_), f"default-config sessions with MONKEYTYPE_TRACE_MODULES = {a1!r} then {a2!r}: session {si_ + 1} recorded user module: {got_user} (expected {want_user}), json: {got_json} (expected {want_json}); rows {sorted(rows_)[:6]}"))
    finally:
        for k_, v_ in old_env.items():
            if v_ is None:
                os.environ.pop(k_, None)
            else:
                os.environ[k_] = v_
        clear_cache()
    res.oblige("R:default-config-sessions-with-changing-allow-list", True)
    # ONE file under two identities in two tracing sessions of one process: run as the script (its functions are __main__,
    # nothing of it is recorded), then imported as a module by another script (its functions are ordinary and recorded) -
    # and the other way round. Nothing a session learnt about a code object may decide the next session's verdict.
    for first in ("script", "module"):
        both = f"c17both_{first}_{ctx.seed}"
        (d / f"{both}.py").write_text(PROGRAM.format(mod=modname))
        drv = d / f"c17drv_{first}.py"
        drv.write_text(f"import {both} as B\nB.main_helper(7)\nB.ScriptClass(1).method(2)\nB.ScriptClass.smethod(3)\n")
        importlib.invalidate_caches()
        seen_rows = []
        for what in ((first, "module" if first == "script" else "script")):
            dbx = str(d / f"both_{first}_{what}.sqlite3")
            mcfg.reset(db=dbx)
            clear_cache()
            res.states += 1
            res.evaluations += 1
            sys.modules.pop(both, None) if what == "script" else None
            try:
                cli.main(["-c", "mcfg:fresh()", "run", str(d / f"{both}.py") if what == "script" else str(drv)], io.StringIO(), io.StringIO())
            except BaseException as e:  # noqa: BLE001
                res.violate(Violation(ID, "run", "two-identities:raised", dict(case, first=first), f"run raised {e!r}"))
                continue
            stx = mcfg.CONFIG.trace_store()
            rowsx = {(t.module, t.qualname) for m in stx.list_modules() for t in stx.filter(m)}
            res.transitions += len(rowsx) + 1
            mine = {r for r in rowsx if r[0] == both or r[0].startswith("__main__")}
            want_mine = set() if what == "script" else {(both, q) for q in ("main_helper", "ScriptClass.method", "ScriptClass.smethod", "ScriptClass.__init__", "main_entry", "outer_in_script", "ScriptClass.cmethod")}
            if what == "script" and mine:
                res.violate(Violation(ID, "run", "main-recorded", dict(case, first=first), f"file run as the script ({'after' if first == 'module' else 'before'} being imported as a module in another session): its functions were recorded: {sorted(mine)[:6]}"))
            if what == "module" and not {(both, "main_helper"), (both, "ScriptClass.method"), (both, "ScriptClass.smethod")} <= mine:
                res.violate(Violation(ID, "run", "admitted-not-recorded:same-file-was-__main__-in-an-earlier-session", dict(case, first=first), f"file imported as module {both} ({'after' if first == 'script' else 'before'} having been run as the script in another session): recorded rows of it: {sorted(mine)}"))
        sys.modules.pop(both, None)
    res.oblige("R:one-file-two-identities", True)
    for ending, tail in (("sys-exit", "import sys\nsys.exit(0)\n"), ("exception", "raise KeyError('script failed')\n")):
        sp = d / f"script_{ending}.py"
        sp.write_text(PROGRAM.format(mod=modname) + "\n" + tail)
        db4 = str(d / f"run_{ending}.sqlite3")
        mcfg.reset(db=db4)
        clear_cache()
        o4, e4 = io.StringIO(), io.StringIO()
        res.states += 1
        res.evaluations += 1
        try:
            cli.main(["-c", "mcfg:fresh()", "run", str(sp)], o4, e4)
        except BaseException:  # noqa: BLE001 - the script's own exit is expected to propagate
            pass
        st4 = mcfg.CONFIG.trace_store()
        rows4 = {(t.module, t.qualname) for m in st4.list_modules() for t in st4.filter(m)}
        if want - rows4:
            res.violate(Violation(ID, "run", "admitted-not-recorded", dict(case, ending=ending), f"script ending with {ending}: admitted calls not recorded: {sorted(want - rows4)}"))
    # modules whose names are textual parts / extensions of "__main__" are ordinary modules: their calls are recorded
    odd = ["main", "m", "a", "ain", "_", "__", "n__", "__main__x", "x__main__", "__main", "main__"]
    od = ctx.tmp / "runprog_odd"
    od.mkdir(exist_ok=True)
    saved = {n: sys.modules.pop(n) for n in odd if n in sys.modules}
    sys.path.insert(0, str(od))
    try:
        for n in odd:
            (od / f"{n}.py").write_text("def odd_fn(x):\n    return x\n")
        sp = od / "script_odd.py"
        sp.write_text("".join(f"import {n}\n{n}.odd_fn(1)\n" for n in odd) + "def in_script(x):\n    return x\nin_script(1)\n")
        importlib.invalidate_caches()
        mcfg.reset(db=str(od / "run_odd.sqlite3"))
        clear_cache()
        res.states += 1
        res.evaluations += 1
        cli.main(["-c", "mcfg:fresh()", "run", str(sp)], io.StringIO(), io.StringIO())
        st5 = mcfg.CONFIG.trace_store()
        rows5 = {(t.module, t.qualname) for m in st5.list_modules() for t in st5.filter(m)}
        res.transitions += len(rows5)
        want5 = {(n, "odd_fn") for n in odd}
        if want5 - rows5:
            res.violate(Violation(ID, "run", "admitted-not-recorded:module-named-like-part-of-__main__", case, f"modules {sorted(n for n, _ in want5 - rows5)} are not __main__, their admitted calls were not recorded"))
        if rows5 - want5:
            res.violate(Violation(ID, "run", "main-recorded", case, f"odd-module script: unexpected rows {sorted(rows5 - want5)}"))
    finally:
        sys.path.remove(str(od))
        for n in odd:
            sys.modules.pop(n, None)
        sys.modules.update(saved)
    res.oblige("R:modules-named-like-parts-of-__main__", True)
    mcfg.reset(db=db)
    res.sample({"part": "R", "rows": sorted(rows)})
    # custom filters: every subset of the 6 functions
    mod = importlib.import_module(modname)
    from monkeytype.tracing import trace_calls

    funcs = {"f0": mod.f0, "f1": mod.f1, "f2": mod.f2, "K.m": mod.K.m, "K.cm": mod.K.cm.__func__, "K.sm": mod.K.sm}
    names = list(funcs)
    for mask in range(64):
        sel = {names[i] for i in range(6) if mask & (1 << i)}
        codes = {funcs[n].__code__ for n in sel}
        logged: List[str] = []

        class L:
            def log(self, t):
                logged.append(t.func.__qualname__)

            def flush(self):
                pass

        with trace_calls(L(), 0, lambda code: code in codes):
            mod.f0(1); mod.f1(1); mod.f2(1); mod.K().m(1); mod.K.cm(1); mod.K.sm(1)
        res.states += 1
        res.transitions += 1
        res.evaluations += 1
        res.validated += 1
        if set(logged) != sel:
            res.violate(Violation(ID, "custom-filter", "subset-mismatch", {"part": "F", "mask": mask}, f"filter accepts {sorted(sel)} but logger saw {sorted(set(logged))}"))
    # a filter that RAISES for some functions (and admits or rejects the others): a function the filter did not admit is
    # not recorded, whatever happened inside the filter; every subset of {f0, f1, f2} raising
    for mask in range(1, 8):
        bad = {funcs[n3_].__code__ for i, n3_ in enumerate(["f0", "f1", "f2"]) if mask & (1 << i)}
        badnames = {n3_ for i, n3_ in enumerate(["f0", "f1", "f2"]) if mask & (1 << i)}
        logged_r: List[str] = []

        class LR:
            def log(self, t):
                logged_r.append(t.func.__qualname__)

            def flush(self):
                pass

        def raising(code, bad=bad):
            if code in bad:
                raise RuntimeError("filter failure")
            return code.co_filename == mod.__file__

        try:
            with trace_calls(LR(), 0, raising):
                mod.f0(1); mod.f1(1); mod.f2(1)
        except RuntimeError:
            pass   # (whether the failure reaches the program is C03's subject)
        res.states += 1
        res.transitions += 1
        res.evaluations += 1
        res.validated += 1
        if set(logged_r) & badnames:
            res.violate(Violation(ID, "custom-filter", "recorded-although-the-filter-raised", {"part": "F", "mask": mask, "raising": True}, f"the filter raises for {sorted(badnames)} and admits the rest of the file: logger saw {logged_r}"))
    # nested tracing blocks, every pair of subset filters over three functions: leaving the inner block hands tracing
    # back to the outer one, and each logger only ever sees what its own filter accepts
    n3 = names[:3]

    def call3():
        mod.f0(1); mod.f1(1); mod.f2(1)

    for mo in range(8):
        for mi in range(8):
            so = {n3[i] for i in range(3) if mo & (1 << i)}
            si = {n3[i] for i in range(3) if mi & (1 << i)}
            co_, ci_ = {funcs[n].__code__ for n in so}, {funcs[n].__code__ for n in si}
            lo: List[str] = []
            li: List[str] = []

            class LO:
                def log(self, t):
                    lo.append(t.func.__qualname__)

                def flush(self):
                    pass

            class LI(LO):
                def log(self, t):
                    li.append(t.func.__qualname__)

            with trace_calls(LO(), 0, lambda code: code in co_):
                call3()
                n_before = len(lo)
                with trace_calls(LI(), 0, lambda code: code in ci_):
                    call3()
                n_mid = len(lo)
                call3()
            res.states += 1
            res.transitions += 3
            res.evaluations += 1
            res.validated += 1
            # f2 calls f0: an accepted f0 is therefore seen twice per round when f2 runs
            per_round_o = sorted([n for n in n3 if n in so] + (["f0"] if "f0" in so else []))
            per_round_i = sorted([n for n in n3 if n in si] + (["f0"] if "f0" in si else []))
            if sorted(lo[:n_before]) != per_round_o or sorted(lo[n_mid:]) != per_round_o or sorted(li) != per_round_i or set(lo) - so or set(li) - si:
                res.violate(Violation(ID, "custom-filter", "nested-tracing-blocks", {"part": "F", "outer": mo, "inner": mi}, f"outer filter {sorted(so)}, inner filter {sorted(si)}: outer logger saw {lo[:n_before]} before, {lo[n_before:n_mid]} during and {lo[n_mid:]} after the inner block; inner logger saw {li}"))
    res.bounds["F_subset_filters"] = 64
    # functions that share their NAME (one file, different qualified names): every subset filter over {trace, Router.trace,
    # K.m, K.sm} x both call orders - the filter's verdict belongs to the code object, not to the name
    same = {"trace": mod.trace, "Router.trace": mod.Router.trace, "K.m": mod.K.m, "K.sm": mod.K.sm}
    snames = list(same)
    for mask in range(16):
        sel = {snames[i] for i in range(4) if mask & (1 << i)}
        codes_s = {same[n].__code__ for n in sel}
        for rev in (False, True):
            logged_s: List[str] = []

            class LS:
                def log(self, t):
                    logged_s.append(t.func.__qualname__)

                def flush(self):
                    pass

            calls_s = [lambda: mod.trace(1), lambda: mod.Router().trace(1), lambda: mod.K.sm(1)]
            with trace_calls(LS(), 0, lambda code: code in codes_s):
                for c in (reversed(calls_s) if rev else calls_s):
                    c()
                    c()
            res.states += 1
            res.transitions += 1
            res.evaluations += 1
            res.validated += 1
            want_s = sel - {"K.m"}
            if set(logged_s) != want_s or len(logged_s) != 2 * len(want_s):
                res.violate(Violation(ID, "custom-filter", "same-named-functions", {"part": "F", "mask": mask, "reversed": rev}, f"filter accepts the code objects of {sorted(sel)} (a function and a method both named `trace`), calls {'reversed' if rev else 'in order'}, each twice: logger saw {logged_s}"))
    del sys.modules[modname]
    # code with a synthetic file name (exec-generated) and a custom filter that accepts it: what the filter accepts is logged
    ns_exec: Dict[str, Any] = {"__name__": "c17_generated"}
    exec(compile("def generated_add(a, b):\n    return a + b\n", "<string>", "exec"), ns_exec)
    for accept_syn in (True, False):
        logged3: List[str] = []

        class L3:
            def log(self, t):
                logged3.append(t.func.__qualname__)

            def flush(self):
                pass

        with trace_calls(L3(), 0, (lambda code: code.co_filename == "<string>") if accept_syn else (lambda code: False)):
            ns_exec["generated_add"](1, 2)
        res.states += 1
        res.transitions += 1
        res.evaluations += 1
        res.validated += 1
        if (logged3 == ["generated_add"]) != accept_syn:
            res.violate(Violation(ID, "custom-filter", "synthetic-filename-code", {"part": "F", "accept_synthetic": accept_syn}, f"custom filter {'accepts' if accept_syn else 'rejects'} <string> code, logger saw {logged3}"))
    # twins: textually identical functions (equal code objects) in two files, a custom filter admitting one file only;
    # every call order, one tracer per order
    tw_src = "def twin(x):\n    return x\n\n\nclass T:\n    def tm(self, x):\n        return x\n"
    names_tw = [f"c17twin_a_{ctx.seed}", f"c17twin_b_{ctx.seed}", f"c17twin_c_{ctx.seed}"]
    for nm in names_tw:
        (d / f"{nm}.py").write_text(tw_src)
    importlib.invalidate_caches()
    tmods = [importlib.import_module(nm) for nm in names_tw]
    assert tmods[0].twin.__code__ == tmods[1].twin.__code__ and tmods[0].twin.__code__ is not tmods[1].twin.__code__
    res.oblige("F:twin-code-objects-equal", True)
    for accept in itertools.chain.from_iterable(itertools.combinations(range(3), r) for r in (1, 2)):
        files = {tmods[i].__file__ for i in accept}
        for order in itertools.permutations(range(3)):
            logged2: List[Tuple[str, str]] = []

            class L2:
                def log(self, t):
                    logged2.append((t.func.__module__, t.func.__qualname__))

                def flush(self):
                    pass

            with trace_calls(L2(), 0, lambda code: code.co_filename in files):
                for i in order:
                    tmods[i].twin(1)
                    tmods[i].T().tm(1)
            res.states += 1
            res.transitions += 6
            res.evaluations += 1
            res.validated += 1
            want2 = sorted((names_tw[i], q) for i in accept for q in ("twin", "T.tm"))
            if sorted(logged2) != want2:
                res.violate(Violation(ID, "custom-filter", "twin-functions", {"part": "F", "accept": list(accept), "order": list(order)}, f"filter admits files of {[names_tw[i] for i in accept]}, call order {order}: logger saw {sorted(logged2)}, expected {want2}"))
    for nm in names_tw:
        del sys.modules[nm]
    return res


def run(ctx: Ctx) -> Result:
    res = Result()
    res.merge(part_paths(ctx))
    res.merge(part_misc(ctx))
    res.merge(part_run(ctx))
    for o in ("P:symlinked-spelling-of-library-path", "P:working-directory-above-the-libraries", "A:allow-list-admits-library-package", "A:allow-list-admits-user-module", "A:allow-list-rejects", "C:equal-code-different-verdicts", "F:twin-code-objects-equal", "A:allow-list-name-equal-to-prefix-component", "U:mod=True", "U:link_to_lib=False", "U:link_to_user=True", "U:near-root-path-admitted", "U:near-root-path-rejected", "R:modules-named-like-parts-of-__main__", "R:one-file-two-identities", "R:default-config-sessions-with-changing-allow-list"):
        res.obligations.setdefault(o, False)
    res.nontrivial_n = res.states
    return res


def replay(case: Dict[str, Any], ctx: Ctx) -> List[Violation]:
    part = case["part"]
    if part == "P" and "code" not in case:
        from monkeytype.config import default_code_filter

        clear_cache()
        got = default_code_filter(uniq(template(), case["file"]))
        want = oracle(case["file"])
        return [Violation(ID, "verdict", "library-file-admitted" if got else "file-rejected", case, f"{got} vs {want}")] if got != want else []
    if part == "R" or part == "F":
        return part_run(ctx).violations
    return part_misc(ctx).violations
