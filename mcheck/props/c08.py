"""C08 — types and call traces survive serialisation unchanged; encoding is a function of structure only.
Engine E1 over: every distinct type inferred from grammar values (all k), every rewritten form, the type grammar T,
hidden-builtin look-alikes; CallTraces over every fixture function kind x return/yield in {absent, NoneType, type}."""
from __future__ import annotations

import itertools
import json
import sys
import typing
from typing import Any, Dict, List, Optional, Tuple

from mcheck.core.par import run_shards
from mcheck.core.runner import Ctx, Result, Violation
from mcheck.gen import typegram as G
from mcheck.gen import values as V
from mcheck.oracles import types as O
from mcheck.props import c07

ID = "C08"
RULE = (
    "types = distinct inferred types (singles, pairs, triples; all k) + their forms under each shipped rewriter + "
    "grammar T + hidden-builtin look-alikes; traces = every fixture function kind x arg type x return in {absent, "
    "NoneType, T} x yield in {absent, NoneType, T}; state = type or trace, transition = one encode/decode; oracle = "
    "structural equality (not ==), function identity, None-vs-NoneType, JSON equality of independently rebuilt "
    "structurally-equal types; non-trivial = type with nesting depth >= 2 or containing a TypedDict/Union"
)
EXPLANATION = "exhaustive bounded enumeration against the real encoder/decoder"
ASSUMPTIONS = ["fixture package importable by name", "the __module__ of an anonymous TypedDict is not structure"]

EXTRA_VALUES = ["Color.RED", "[Color.RED, Color.BLUE]", "Color", "AbcImpl()", "AbcBase", "WithMeta()", "WithMeta", "{'a': AbcImpl()}", "NotImplemented", "int.__dict__", "H.NoneType()", "H.mappingproxy()", "H.Any()", "H.Union()", "H.List()", "[H.NoneType()]", "{'a': H.NoneType()}", "H.NoneType", "[NotImplemented, None]",
                # classes that are falsy (metaclass __len__ / __bool__) and typing.TypedDict classes, as instances and as class objects
                "OD.Registry()", "OD.Registry", "OD.Flagless()", "OD.Flagless", "[OD.Registry(), OD.Flagless()]", "OD.Movie", "OD.Options", "OD.Api.Payload", "[OD.Movie, OD.Options]", "(OD.Api.Payload, 1)", "{'a': OD.Movie}",
                # dict keys that are parameter names of the TypedDict constructor; PEP 585 / 604 alias OBJECTS as values
                "{'total': 3, 'items': [0]}", "{'fields': 1, 'typename': 2, 'self': 3}", "[{'total': False}]", "list[int]", "int | None", "[list[int], dict[str, int]]", "{'a': int | str}", "(tuple[int, ...],)",
                # classes of a submodule whose name is shadowed by a function in the package namespace
                "SH.Canvas()", "SH.Canvas.Cell()", "SH.Canvas", "[SH.Canvas(), SH.Canvas.Cell()]", "{'a': SH.Canvas.Cell()}"]


def _ns():
    import vfx.hidden as H

    import vfx.odd as OD

    ns = dict(V.NS)
    ns["H"] = H
    ns["OD"] = OD
    import importlib

    ns["SH"] = importlib.import_module("vfx.shadow.render")
    return ns


def rebuild(T: Any) -> Any:
    """Independent reconstruction of a structurally equal type (fresh objects, dict fields in reversed order)."""
    from monkeytype.typing import make_typed_dict

    k = O.classify(T)
    if k[0] == "union":
        return typing.Union[tuple(rebuild(a) for a in k[1])]
    if k[0] == "atd":
        req = {n: rebuild(t) for n, t in reversed(list(k[1].items()))}
        opt = {n: rebuild(t) for n, t in reversed(list(k[2].items()))}
        return make_typed_dict(required_fields=req, optional_fields=opt)
    if k[0] == "generic" and k[2] is not None and isinstance(T, typing._GenericAlias):  # type: ignore[attr-defined]
        args = tuple(a if a is Ellipsis else rebuild(a) for a in k[2])
        base = {list: typing.List, set: typing.Set, dict: typing.Dict, tuple: typing.Tuple, type: typing.Type}.get(k[1])
        if base is None:
            return T.copy_with(args) if args else T
        if base is typing.Tuple and args == ():
            return typing.Tuple[()]
        return base[args]
    return T


def strip_atd_module(d: Any) -> Any:
    """Normal form of the JSON encoding: anonymous-TypedDict module dropped, union members sorted (typing's
    caches make the member order of a nested Union depend on process history; unions are sets)."""
    if isinstance(d, dict):
        out = {kk: strip_atd_module(vv) for kk, vv in d.items()}
        if out.get("is_typed_dict"):
            out.pop("module", None)
        if out.get("qualname") == "Union" and out.get("module") == "typing" and isinstance(out.get("elem_types"), list):
            out["elem_types"] = sorted(out["elem_types"], key=lambda x: json.dumps(x, sort_keys=True))
        return out
    if isinstance(d, list):
        return [strip_atd_module(x) for x in d]
    return d


def check_type(T: Any, enc) -> Optional[Tuple[str, str, str]]:
    type_to_json, type_from_json = enc
    try:
        js = type_to_json(T)
    except Exception as e:  # noqa: BLE001
        sig = "encode:tuple-ellipsis" if any(O.classify(n)[0] == "generic" and O.classify(n)[2] and Ellipsis in O.classify(n)[2] for n in O.walk(T)) else "encode"
        return ("exception", sig, f"type_to_json({O.show(T)}) raised {e!r}")
    try:
        back = type_from_json(js)
    except Exception as e:  # noqa: BLE001
        return ("exception", "decode:" + type(e).__name__, f"type_from_json({js[:200]}) raised {e!r}")
    if O.struct(back) != O.struct(T):
        return ("roundtrip", "type-changed", f"{O.show(T)} decoded as {O.show(back)}")
    try:
        js2 = type_to_json(back)
        js3 = type_to_json(rebuild(T))
    except Exception as e:  # noqa: BLE001
        return ("exception", "re-encode", f"re-encoding raised {e!r}")
    a, b, c = (strip_atd_module(json.loads(x)) for x in (js, js2, js3))
    if a != b:
        return ("structure-only", "reencode-differs", f"{O.show(T)}: {js[:150]} vs re-encoded {js2[:150]}")
    if a != c:
        return ("structure-only", "rebuilt-differs", f"{O.show(T)}: {js[:150]} vs independently rebuilt {js3[:150]}")
    return None


def fixture_funcs() -> List[Tuple[str, Any]]:
    import vfx.shapes as S

    return [
        ("mfunc", S.mfunc), ("Base.meth", S.Base.meth), ("Base.cmeth", S.Base.cmeth.__func__), ("Base.smeth", S.Base.smeth),
        ("Base.prop", S.Base.prop.fget), ("wrapped", S.wrapped.__wrapped__), ("wrapped2", S.wrapped2.__wrapped__.__wrapped__),
        ("Outer.Inner.imeth", S.Outer.Inner.imeth), ("Outer.Inner.ismeth", S.Outer.Inner.ismeth), ("Outer.Inner.Deep.dmeth", S.Outer.Inner.Deep.dmeth),
        ("genfunc", S.genfunc), ("lam", S.lam), ("cached_func", S.cached_func.__wrapped__), ("class_decorated", S.class_decorated.__wrapped__), ("Deco.dmeth", S.Deco.dmeth.__wrapped__), ("Deco.dcmeth", S.Deco.dcmeth.__func__.__wrapped__),
    ] + _shadow_funcs()


def _shadow_funcs() -> List[Tuple[str, Any]]:
    import importlib

    SH = importlib.import_module("vfx.shadow.render")
    return [("shadow.render", SH.render), ("shadow.Canvas.blank", SH.Canvas.blank.__func__), ("shadow.gen_cells", SH.gen_cells)]


def check_trace(fname: str, func, args: Dict[str, Any], ret, yld, mods) -> Optional[Tuple[str, str, str]]:
    CallTrace, CallTraceRow = mods
    t = CallTrace(func, dict(args), ret, yld)
    try:
        row = CallTraceRow.from_trace(t)
        back = row.to_trace()
    except Exception as e:  # noqa: BLE001
        if fname == "lam":  # a lambda is not importable by name: decoding may fail, but only with a MonkeyTypeError
            from monkeytype.exceptions import MonkeyTypeError

            if isinstance(e, MonkeyTypeError):
                return None
            tl = list(args.values()) + [x for x in (ret, yld) if x is not None]
            if any(O.classify(n)[0] == "generic" and O.classify(n)[2] and Ellipsis in O.classify(n)[2] for t0 in tl for n in O.walk(t0)):
                return ("exception", "encode:tuple-ellipsis", f"trace of {fname} raised {e!r}")
            return ("exception", "trace:lambda", f"{fname}: {e!r}")
        tl = list(args.values()) + [x for x in (ret, yld) if x is not None]
        if any(O.classify(n)[0] == "generic" and O.classify(n)[2] and Ellipsis in O.classify(n)[2] for t0 in tl for n in O.walk(t0)):
            return ("exception", "encode:tuple-ellipsis", f"trace of {fname} raised {e!r}")
        return ("exception", "trace:" + type(e).__name__, f"trace of {fname} raised {e!r}")
    if fname == "lam":
        return None
    if back.func is not func:
        return ("trace", "func-identity", f"{fname}: decoded to {back.func!r}, expected {func!r}")
    if set(back.arg_types) != set(args) or any(O.struct(back.arg_types[n]) != O.struct(args[n]) for n in args):
        return ("trace", "arg-types", f"{fname}: args {args} decoded as {back.arg_types}")
    for slot, a, b in (("return", ret, back.return_type), ("yield", yld, back.yield_type)):
        if (a is None) != (b is None):
            return ("trace", f"{slot}-absent-vs-none", f"{fname}: {slot} {a!r} decoded as {b!r}")
        if a is not None and O.struct(a) != O.struct(b):
            return ("trace", f"{slot}-type", f"{fname}: {slot} {O.show(a)} decoded as {O.show(b)}")
    # encoding is a function of structure only: the same trace built independently (argument dict filled in the opposite
    # order, types rebuilt with fields in reverse order) must give the same row
    try:
        args2 = {n: rebuild(tt) for n, tt in reversed(list(args.items()))}
        row2 = CallTraceRow.from_trace(CallTrace(func, args2, None if ret is None else rebuild(ret), None if yld is None else rebuild(yld)))
    except Exception as e:  # noqa: BLE001
        return ("exception", "trace:rebuild", f"{fname}: re-encoding an independently built equal trace raised {e!r}")
    norm = lambda js: None if js is None else json.dumps(strip_atd_module(json.loads(js)), sort_keys=False)  # noqa: E731
    for slot, a1, a2 in (("arg_types", row.arg_types, row2.arg_types), ("return_type", row.return_type, row2.return_type), ("yield_type", row.yield_type, row2.yield_type)):
        if norm(a1) != norm(a2):
            return ("structure-only", f"row-{slot}-differs", f"{fname}: equal traces encode {slot} as {a1[:120] if a1 else a1!r} and {a2[:120] if a2 else a2!r}")
    # row-level: JSON is text / None
    if (ret is None) != (row.return_type is None) or (yld is None) != (row.yield_type is None):
        return ("trace", "row-null", f"{fname}: row return={row.return_type!r} yield={row.yield_type!r}")
    return None


def reload_stage(res: Result, CallTrace, CallTraceRow) -> None:
    """decode -> importlib.reload(module) -> decode the SAME row again: each decode names the function that exists then."""
    import importlib

    import vfx.reloadme as R

    for qual in ("f", "C.m"):
        def cur():
            obj = R
            for part in qual.split("."):
                obj = getattr(obj, part)
            return obj

        row = CallTraceRow.from_trace(CallTrace(cur(), {"x": int}, int, None))
        res.states += 1
        res.transitions += 3
        res.evaluations += 1
        case = {"what": "reload", "qual": qual, "tier": "quick"}
        try:
            first = row.to_trace().func
            ok1 = first is cur()
            importlib.reload(R)
            second = row.to_trace().func
            ok2 = second is cur()
        except Exception as e:  # noqa: BLE001
            res.violate(Violation(ID, "exception", "reload", case, f"decode around a reload raised {e!r}"))
            continue
        if not ok1 or not ok2:
            res.violate(Violation(ID, "trace", "stale-function-after-reload", case, f"vfx.reloadme.{qual}: decoded function is the current one before reload: {ok1}, after reload: {ok2}"))
    res.oblige("trace:reload-between-decodes", True)


def late_import_stage(res: Result, ctx, CallTrace, CallTraceRow) -> None:
    """A module that cannot be imported at the first decode attempt (its directory is not on sys.path yet) and can at the
    second: the failed attempt is a MonkeyTypeError, and the later decode of the SAME rows gives back the types and traces
    (nothing remembers the earlier failure)."""
    import importlib

    from monkeytype.encoding import type_from_json
    from monkeytype.exceptions import MonkeyTypeError

    d = ctx.tmp / "c08_late"
    d.mkdir(exist_ok=True)
    name = f"c08late_{ctx.seed}"
    (d / f"{name}.py").write_text("class Late:\n    class Inner:\n        pass\n\n\ndef late_func(x):\n    return x\n")
    jsons = ['{"module": "%s", "qualname": "Late"}' % name, '{"module": "%s", "qualname": "Late.Inner"}' % name,
             '{"elem_types": [{"module": "%s", "qualname": "Late"}], "module": "typing", "qualname": "List"}' % name]
    row = CallTraceRow(name, "late_func", '{"x": {"module": "%s", "qualname": "Late"}}' % name, '{"module": "builtins", "qualname": "int"}', None)
    case = {"what": "late-import", "tier": ctx.tier}
    res.states += 1
    res.evaluations += 1
    res.validated += 1
    res.transitions += 2 * (len(jsons) + 1)
    sys.modules.pop(name, None)
    for j in jsons + [row]:
        try:
            (type_from_json(j) if isinstance(j, str) else j.to_trace())
            res.violate(Violation(ID, "exception", "late-import:decoded-without-the-module", case, f"{j!r} decoded although module {name} cannot be imported"))
            return
        except MonkeyTypeError:
            pass
        except Exception as e:  # noqa: BLE001
            res.violate(Violation(ID, "exception", "late-import:" + type(e).__name__, case, f"first decode of {j!r} raised {e!r} (not a MonkeyTypeError)"))
            return
    sys.path.insert(0, str(d))
    importlib.invalidate_caches()
    try:
        mod = importlib.import_module(name)
        want = [mod.Late, mod.Late.Inner, typing.List[mod.Late]]
        for j, w in zip(jsons, want):
            try:
                got = type_from_json(j)
            except Exception as e:  # noqa: BLE001
                res.violate(Violation(ID, "exception", "late-import:still-failing", case, f"{j} failed to decode while {name} was not importable; now that it is, decoding raises {e!r}"))
                continue
            if O.struct(got) != O.struct(w):
                res.violate(Violation(ID, "type", "late-import:wrong-type", case, f"{j} decodes to {O.show(got)}, expected {O.show(w)}"))
        try:
            t = row.to_trace()
            if t.func is not mod.late_func or O.struct(t.arg_types["x"]) != O.struct(mod.Late):
                res.violate(Violation(ID, "trace", "late-import:wrong-trace", case, f"row decodes to {t!r}"))
        except Exception as e:  # noqa: BLE001
            res.violate(Violation(ID, "exception", "late-import:still-failing", case, f"the row of {name}.late_func failed to decode while the module was not importable; now that it is, to_trace() raises {e!r}"))
    finally:
        sys.path.remove(str(d))
        sys.modules.pop(name, None)
    res.oblige("trace:late-import", True)


def store_stage(res: Result, ctx, CallTrace) -> None:
    """Every fixture function x {no argument types, one argument type} x return in {absent, NoneType, a type} x yield in
    {absent, NoneType, a type}, written through SQLiteStore.add (in two batches) and read back with filter(): exactly the
    traces that were added come back, as the same functions with the same four slots."""
    import collections

    from monkeytype.db.sqlite import SQLiteStore

    path = str(ctx.tmp / f"c08_store_{__import__('os').getpid()}.sqlite3")
    st = SQLiteStore.make_store(path)
    slots = [None, O.NoneType, int]
    want = collections.Counter()
    traces = []
    for fname, func in fixture_funcs():
        if fname == "lam":
            continue
        for args in ({}, {"x": str}):
            for r in slots:
                for y in slots:
                    traces.append(CallTrace(func, dict(args), r, y))
                    want[(fname, tuple(sorted((n, O.struct(t)) for n, t in args.items())), None if r is None else O.struct(r), None if y is None else O.struct(y))] += 1
    st.add(traces[::2])
    st.add(iter(traces[1::2]))
    by_func = {id(f): n for n, f in fixture_funcs()}
    got = collections.Counter()
    problems = []
    for mod_ in st.list_modules():
        for row in st.filter(mod_, None, 100000):
            try:
                t = row.to_trace()
            except Exception as e:  # noqa: BLE001
                problems.append(f"row {row.module}:{row.qualname} does not decode: {e!r}")
                continue
            got[(by_func.get(id(t.func), repr(t.func)), tuple(sorted((n, O.struct(x)) for n, x in t.arg_types.items())), None if t.return_type is None else O.struct(t.return_type), None if t.yield_type is None else O.struct(t.yield_type))] += 1
    st.conn.close()
    res.states += len(traces)
    res.transitions += len(traces)
    res.evaluations += 1
    res.validated += len(traces)
    missing = [k for k in want if k not in got]
    extra = [k for k in got if k not in want]
    case = {"what": "store", "tier": "quick"}
    if problems:
        res.violate(Violation(ID, "exception", "store:decode", case, problems[0]))
    if missing or extra:
        res.violate(Violation(ID, "trace", "store-round-trip", case, f"{len(traces)} traces written through SQLiteStore and read back: missing {missing[:3]} (of {len(missing)}), unexpected {extra[:3]} (of {len(extra)})"))
    res.oblige("trace:through-the-store", True)


def all_types(tier: str) -> List[Any]:
    from monkeytype.typing import get_type

    base = [t for t, _ in c07.inferred_types(tier)]
    ns = _ns()
    for e in EXTRA_VALUES:
        v = eval(e, dict(ns))
        for k in (0, 3):
            base.append(get_type(v, k))
    out: Dict[Any, Any] = {}
    for t in base:
        out.setdefault(O.struct(t), t)
    # rewritten forms
    for rname, rw in c07.singles():
        for t in list(base):
            try:
                y = rw.rewrite(t)
            except Exception:  # noqa: BLE001
                continue
            out.setdefault(O.struct(y), y)
    for t in G.all_types(tier == "quick"):
        if tier != "quick" and len(out) > 150000:
            break
        out.setdefault(O.struct(t), t)
    return list(out.values())


def run(ctx: Ctx) -> Result:
    nshards = ctx.workers * 2

    def shard(ctx: Ctx, si: int) -> Result:
        from monkeytype.encoding import CallTraceRow, type_from_json, type_to_json
        from monkeytype.tracing import CallTrace

        res = Result()
        types = all_types(ctx.tier)
        for i in range(si, len(types), nshards):
            T = types[i]
            res.states += 1
            res.transitions += 3
            res.evaluations += 1
            res.validated += 1
            v = check_type(T, (type_to_json, type_from_json))
            if v:
                res.violate(Violation(ID, v[0], v[1], {"what": "type", "index": i, "tier": ctx.tier, "type": O.show(T)}, v[2]))
            else:
                res.outcomes.add(hash(O.struct(T)))
                if O.size(T) >= 3:
                    res.nontrivial_n += 1
                for n in O.walk(T):
                    c = O.classify(n)
                    if c[0] == "atd":
                        res.oblige("saw:typed-dict" + ("-optional" if c[2] else ""), True)
                    elif c[0] == "generic" and c[2] == ():
                        res.oblige("saw:empty-tuple", True)
                    elif c[0] == "generic" and c[1] is type:
                        res.oblige("saw:Type[C]", True)
                    elif c[0] == "generic" and c[2] is None:
                        res.oblige("saw:bare-generic", True)
            if i % 3001 == 0:
                res.sample({"type": O.show(T)})
        # traces
        funcs = fixture_funcs()
        import vfx.odd as OD

        slot_types = [None, O.NoneType, OD.Registry, OD.Flagless, typing.Type[OD.Movie], typing.List[OD.Registry]] + types[:: max(1, len(types) // 40)][:40]
        arg_types = types[:: max(1, len(types) // 25)][:25]
        combos = list(itertools.product(range(len(funcs)), range(len(slot_types)), range(len(slot_types))))
        for ci in range(si, len(combos), nshards):
            fi, ri, yi = combos[ci]
            fname, func = funcs[fi]
            at = arg_types[ci % len(arg_types)]
            res.states += 1
            res.transitions += 2
            res.evaluations += 1
            res.validated += 1
            v = check_trace(fname, func, {"x": at, "a_second": arg_types[(ci + 7) % len(arg_types)]}, slot_types[ri], slot_types[yi], (CallTrace, CallTraceRow))
            if v:
                res.violate(Violation(ID, v[0], v[1], {"what": "trace", "func": fname, "ci": ci, "tier": ctx.tier}, v[2]))
            else:
                res.oblige(f"trace:{fname}", True)
        if si == 0:
            reload_stage(res, CallTrace, CallTraceRow)
            store_stage(res, ctx, CallTrace)
            late_import_stage(res, ctx, CallTrace, CallTraceRow)
        res.extra["types"] = len(types)
        res.extra["traces"] = len(combos)
        return res

    res = run_shards(ctx, shard, list(range(nshards)))
    for o in ("saw:typed-dict", "saw:typed-dict-optional", "saw:empty-tuple", "saw:Type[C]", "saw:bare-generic"):
        res.obligations.setdefault(o, False)
    for fname, _ in fixture_funcs():
        res.obligations.setdefault(f"trace:{fname}", False)
    res.obligations.setdefault("trace:reload-between-decodes", False)
    res.obligations.setdefault("trace:through-the-store", False)
    res.obligations.setdefault("trace:late-import", False)
    res.bounds.update({"tier": ctx.tier})
    return res


def replay(case: Dict[str, Any], ctx: Ctx) -> List[Violation]:
    from monkeytype.encoding import CallTraceRow, type_from_json, type_to_json
    from monkeytype.tracing import CallTrace

    types = all_types(case["tier"])
    out: List[Violation] = []
    if case["what"] == "reload":
        r = Result()
        reload_stage(r, CallTrace, CallTraceRow)
        return r.violations
    if case["what"] == "late-import":
        r = Result()
        late_import_stage(r, ctx, CallTrace, CallTraceRow)
        return r.violations
    if case["what"] == "store":
        r = Result()
        store_stage(r, ctx, CallTrace)
        return r.violations
    if case["what"] == "type":
        v = check_type(types[case["index"]], (type_to_json, type_from_json))
    else:
        funcs = fixture_funcs()
        import vfx.odd as OD

        slot_types = [None, O.NoneType, OD.Registry, OD.Flagless, typing.Type[OD.Movie], typing.List[OD.Registry]] + types[:: max(1, len(types) // 40)][:40]
        arg_types = types[:: max(1, len(types) // 25)][:25]
        combos = list(itertools.product(range(len(funcs)), range(len(slot_types)), range(len(slot_types))))
        fi, ri, yi = combos[case["ci"]]
        fname, func = funcs[fi]
        v = check_trace(fname, func, {"x": arg_types[case["ci"] % len(arg_types)], "a_second": arg_types[(case["ci"] + 7) % len(arg_types)]}, slot_types[ri], slot_types[yi], (CallTrace, CallTraceRow))
    if v:
        out.append(Violation(ID, v[0], v[1], case, v[2]))
    return out
