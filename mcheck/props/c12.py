"""C12 — stubs are valid Python and mirror the traced functions' real signatures.
Engine E1: every valid parameter list (0..4 parameters over six kinds, defaults incl. None, long names forcing the
120-column wrap) x function kinds x class depth {0,1,2}, generated as modules of 5 functions; every subset traced."""
from __future__ import annotations

import ast
import importlib
import inspect
import itertools
import sys
from pathlib import Path
from typing import Any, Dict, List, Optional, Tuple

from mcheck.core.par import run_shards
from mcheck.core.runner import Ctx, Result, Violation
from mcheck.gen import sigs as G

ID = "C12"
RULE = (
    "all valid parameter lists of 0..3 (thorough 0..4, and 0..5 for module functions / instance methods / async static methods; module/instance kinds always 0..4) parameters over {positional-only, "
    "positional-or-keyword, keyword-only, defaulted incl. None, *args, **kwargs} + 5..8-parameter long-name lists that "
    "wrap at 120 columns x kinds {function, coroutine, generator, instance/class/static/property/coroutine method} x class "
    "depth {0,1,2}; modules of 5 functions, all 31 non-empty traced subsets; state = one (module, subset) stub, "
    "transition = one function compared with inspect.signature of the live object; non-trivial = function with >= 2 "
    "parameter kinds or a decorator"
)
EXPLANATION = "exhaustive bounded enumeration; stubs parsed with ast and compared with the live functions"
ASSUMPTIONS = ["ast and inspect.signature are trusted", "generated sources carry no annotations (C13 covers those)"]

KINDS0 = ["function", "coroutine", "generator", "asyncgen"]
KINDS1 = ["instance", "classmethod", "staticmethod", "cocoroutine", "coclassmethod", "costaticmethod"]  # co* = coroutine method (plain / classmethod / staticmethod)


def specs(tier: str) -> List[Tuple[str, int, Tuple[G.Param, ...], bool]]:
    """(kind, class depth, parameter list, long names?)"""
    small = G.param_lists(3)
    big = G.param_lists(4)
    all_lists = big if tier == "thorough" else small
    out = []
    for pl in all_lists:
        for k in KINDS0:
            out.append((k, 0, pl, False))
        for k in KINDS1:
            for depth in (1, 2):
                out.append((k, depth, pl, False))
    if tier != "thorough":
        extra = [pl for pl in big if len(pl) == 4]
        for pl in extra:
            out.append(("function", 0, pl, False))
            out.append(("instance", 1, pl, False))
    else:
        for pl in [pl for pl in G.param_lists(5) if len(pl) == 5]:
            out.append(("function", 0, pl, False))
            out.append(("instance", 1, pl, False))
            out.append(("costaticmethod", 2, pl, False))
    for depth in (1, 2):
        out.append(("property", depth, (), False))
    # long names: wrapping
    longs = [pl for pl in big if len(pl) == 4][::23]
    for pl in longs:
        for extra_n in (1, 2, 3, 4):
            pl2 = tuple([("K", None)] * extra_n) + pl if not any(k == "P" for k, _ in pl) else tuple([("P", None)] * extra_n) + pl
            # keep default-order validity: prepend only non-default positional params
            out.append(("function", 0, pl2, True))
            out.append(("instance", 1, pl2, True))
            out.append(("classmethod", 2, pl2, True))
    for n in (3, 5, 7):
        for d in (0, 1, n):
            plp = tuple([("P", None)] * (n - d) + [("P", "1")] * d)
            out.append(("function", 0, plp, True))
            out.append(("instance", 1, plp, True))
            out.append(("staticmethod", 2, plp, True))
    return out


def gen_module(funcs: List[Tuple[str, int, Tuple[G.Param, ...], bool]], base: int) -> Tuple[str, List[Dict[str, Any]]]:
    """Source of one module holding the given function specs. Layout: module-level defs, class C1 { depth-1 methods,
    class N2 { depth-2 methods } }."""
    lines: List[str] = ["import asyncio", ""]
    meta: List[Dict[str, Any]] = []
    d0 = [(i, f) for i, f in enumerate(funcs) if f[1] == 0]
    d1 = [(i, f) for i, f in enumerate(funcs) if f[1] == 1]
    d2 = [(i, f) for i, f in enumerate(funcs) if f[1] == 2]

    def emit(i: int, f, indent: str, path: Tuple[str, ...]) -> None:
        kind, depth, pl, long = f
        names = (G.LONG if long else G.SHORT)[: len(pl)]
        if len(pl) > len(names):
            names = [f"{'p' if not long else 'parameter_with_long_name_number_'}{j}" for j in range(len(pl))]
        fname = f"fn{base + i}_{kind[:3]}"
        recv = {"instance": "self", "classmethod": "cls", "property": "self", "cocoroutine": "self", "coclassmethod": "cls"}.get(kind, "")
        params = G.render_params(pl, names, recv)
        deco = {"classmethod": "@classmethod", "staticmethod": "@staticmethod", "property": "@property", "coclassmethod": "@classmethod", "costaticmethod": "@staticmethod"}.get(kind)
        if deco:
            lines.append(f"{indent}{deco}")
        is_async = kind in ("coroutine", "cocoroutine", "asyncgen", "coclassmethod", "costaticmethod")
        lines.append(f"{indent}{'async ' if is_async else ''}def {fname}({params}):")
        if kind in ("generator", "asyncgen"):
            lines.append(f"{indent}    yield 1")
        else:
            lines.append(f"{indent}    return 1")
        lines.append("")
        meta.append({"idx": i, "path": path, "name": fname, "kind": kind, "params": pl, "names": names, "recv": recv})

    for i, f in d0:
        emit(i, f, "", ())
    if d1 or d2:
        lines.append("class C1:")
        lines.append("    pass")
        for i, f in d1:
            emit(i, f, "    ", ("C1",))
        if d2:
            lines.append("    class N2:")
            lines.append("        pass")
            for i, f in d2:
                emit(i, f, "        ", ("C1", "N2"))
    return "\n".join(lines) + "\n", meta


def live(mod, m: Dict[str, Any]):
    obj: Any = mod
    for p in m["path"]:
        obj = getattr(obj, p)
    raw = inspect.getattr_static(obj, m["name"])
    if isinstance(raw, (classmethod, staticmethod)):
        return raw.__func__
    if isinstance(raw, property):
        return raw.fget
    return inspect.unwrap(raw) if inspect.isfunction(raw) else raw


def sig_shape(func) -> List[Tuple[str, str, bool]]:
    return [(p.name, p.kind.name, p.default is not inspect.Parameter.empty) for p in inspect.signature(func).parameters.values()]


def ast_shape(node) -> List[Tuple[str, str, bool]]:
    a = node.args
    out: List[Tuple[str, str, bool]] = []
    pos = [(x, "POSITIONAL_ONLY") for x in a.posonlyargs] + [(x, "POSITIONAL_OR_KEYWORD") for x in a.args]
    nd = len(a.defaults)
    for j, (x, k) in enumerate(pos):
        out.append((x.arg, k, j >= len(pos) - nd))
    if a.vararg:
        out.append((a.vararg.arg, "VAR_POSITIONAL", False))
    for x, d in zip(a.kwonlyargs, a.kw_defaults):
        out.append((x.arg, "KEYWORD_ONLY", d is not None))
    if a.kwarg:
        out.append((a.kwarg.arg, "VAR_KEYWORD", False))
    return out


def collect(tree: ast.Module) -> Dict[Tuple[Tuple[str, ...], str], List[Any]]:
    found: Dict[Tuple[Tuple[str, ...], str], List[Any]] = {}

    def visit(body, path):
        for n in body:
            if isinstance(n, (ast.FunctionDef, ast.AsyncFunctionDef)):
                found.setdefault((path, n.name), []).append(n)
            elif isinstance(n, ast.ClassDef):
                visit(n.body, path + (n.name,))

    visit(tree.body, ())
    return found


def check_subset(text: str, mod, metas: List[Dict[str, Any]], subset: Tuple[int, ...]) -> List[Tuple[str, str, str]]:
    out: List[Tuple[str, str, str]] = []
    nested = any(len(metas[i]["path"]) >= 2 for i in subset)
    try:
        tree = ast.parse(text)
    except SyntaxError as e:
        sig = "method-of-nested-class" if nested and "class C1.N2" in text else "syntax"
        return [("syntax", sig, f"stub does not parse ({e.msg} line {e.lineno}): {text[:400]!r}")]
    found = collect(tree)
    want = {(tuple(metas[i]["path"]), metas[i]["name"]): metas[i] for i in subset}
    for key in found:
        if key not in want:
            out.append(("extra", "untraced-appears", f"{key} appears in the stub but was not traced"))
    for key, m in want.items():
        nodes = found.get(key, [])
        if len(nodes) != 1:
            sig = "method-of-nested-class" if len(m["path"]) >= 2 else "missing-or-duplicated"
            out.append(("placement", sig, f"{key} appears {len(nodes)} times (found: {sorted(found)})"))
            continue
        node = nodes[0]
        func = live(mod, m)
        decos = [ast.unparse(d) for d in node.decorator_list]
        wantd = {"classmethod": ["classmethod"], "staticmethod": ["staticmethod"], "property": ["property"], "coclassmethod": ["classmethod"], "costaticmethod": ["staticmethod"]}.get(m["kind"], [])
        if decos != wantd:
            out.append(("decorator", m["kind"], f"{key}: decorators {decos}, expected {wantd}"))
        if isinstance(node, ast.AsyncFunctionDef) != inspect.iscoroutinefunction(func):
            out.append(("async", m["kind"], f"{key}: async mismatch"))
        a, b = ast_shape(node), sig_shape(func)
        if a != b:
            out.append(("signature", "shape", f"{key}: stub parameters {a} != live {b}"))
        if m["recv"]:
            first = (node.args.posonlyargs + node.args.args)[:1]
            if first and first[0].annotation is not None:
                out.append(("receiver", m["kind"], f"{key}: receiver annotated as {ast.unparse(first[0].annotation)}"))
    return out


def traces_for(mod, metas, subset):
    from monkeytype.tracing import CallTrace

    out = []
    for i in subset:
        m = metas[i]
        func = live(mod, m)
        names = list(inspect.signature(func).parameters)
        # which parameters carry a traced type varies with the subset: all / even positions / odd positions / none
        variant = (sum(subset) + i) % 4
        arg_types = {n: int for j, n in enumerate(names) if variant == 0 or (variant == 1 and j % 2 == 0) or (variant == 2 and j % 2 == 1)}
        if m["recv"]:
            cls = mod
            for p in m["path"]:
                cls = getattr(cls, p)
            if names[0] in arg_types:
                arg_types[names[0]] = cls if m["recv"] == "self" else type
        elif m["path"] and names and names[0] in arg_types and m["kind"] != "property":
            # a static method (no receiver) whose FIRST argument happened to be a class object
            from typing import Type

            arg_types[names[0]] = Type[int]
        if m["kind"] in ("generator", "asyncgen"):
            out.append(CallTrace(func, arg_types, None, int))
        else:
            out.append(CallTrace(func, arg_types, int, None))
    return out


def run_module(res: Result, ctx: Ctx, mi: int, group, srcdir: Path, subsets: Optional[List[Tuple[int, ...]]] = None) -> None:
    from monkeytype.stubs import build_module_stubs_from_traces

    src, metas = gen_module(group, mi * 10)
    modname = f"c12m_{ctx.seed}_{mi}"
    (srcdir / f"{modname}.py").write_text(src)
    importlib.invalidate_caches()
    mod = importlib.import_module(modname)
    n = len(metas)
    if subsets is None:
        subsets = [s for r in range(1, n + 1) for s in itertools.combinations(range(n), r)]
    for subset in subsets:
        res.states += 1
        case = {"module_index": mi, "subset": list(subset), "tier": ctx.tier}
        try:
            stubs = build_module_stubs_from_traces(traces_for(mod, metas, subset), 0)
            text = stubs[modname].render()
        except Exception as e:  # noqa: BLE001
            res.violate(Violation(ID, "exception", type(e).__name__, case, f"stub generation raised {e!r}"))
            continue
        res.validated += 1
        res.evaluations += 1
        res.transitions += len(subset)
        vs = check_subset(text, mod, metas, subset)
        if len(subset) in (1, n) or res.states % 3 == 0:
            # the same traces through the other public entry point (a logger building the stub index directly)
            from monkeytype.stubs import StubIndexBuilder

            try:
                sib = StubIndexBuilder(".*", 0)
                trs = traces_for(mod, metas, subset)
                for ti, tr_ in enumerate(trs):
                    sib.log(tr_)
                    if ti == (len(trs) - 1) // 2 and len(trs) > 1:
                        sib.get_stubs()   # polled half-way: what was stubbed so far must still be there at the end
                text2 = sib.get_stubs()[modname].render()
                vs2 = check_subset(text2, mod, metas, subset)
                res.transitions += 1
                for kind, sig, msg in vs2[:1]:
                    res.violate(Violation(ID, kind, "StubIndexBuilder:" + sig, case, "via StubIndexBuilder: " + msg))
                res.oblige("saw:StubIndexBuilder", True)
            except Exception as e:  # noqa: BLE001
                res.violate(Violation(ID, "exception", "StubIndexBuilder", case, f"StubIndexBuilder raised {e!r}"))
        for kind, sig, msg in vs[:2]:
            res.violate(Violation(ID, kind, sig, case, msg))
        if not vs:
            res.outcomes.add(hash(text))
            if any(len({k for k, _ in metas[i]["params"]}) >= 2 or metas[i]["kind"] in ("classmethod", "staticmethod", "property") for i in subset):
                res.nontrivial_n += 1
            if "\n    " in text and "(\n" in text:
                res.oblige("saw:wrapped-signature", True)
            if "/" in text:
                res.oblige("saw:posonly-separator", True)
            if "*, " in text or "(*," in text:
                res.oblige("saw:kwonly-separator", True)
            if "async def" in text:
                res.oblige("saw:async", True)
        if res.states % 4001 == 1:
            res.sample({"module": src[:500], "subset": list(subset), "stub": text[:500]})
    del sys.modules[modname]


WRAP_SRC = '''
import functools


def deco(f):
    @functools.wraps(f)
    def wrapper(*args, **kwargs):
        return f(*args, **kwargs)

    return wrapper


@deco
async def dco(a, b=1, *, c=None):
    return 1


@deco
def dfn(a, /, b=2):
    return 1


class W:
    @deco
    async def mco(self, a, *rest):
        return 1


class Props:
    def __init__(self):
        self._v = 1

    @property
    def ro(self):
        return self._v

    @property
    def rw(self):
        return self._v

    @rw.setter
    def rw(self, v):
        self._v = v

    def plain(self, a):
        return a
'''

DESC_SRC = '''
import abc


class lazy(property):
    pass


class D(abc.ABC):
    @abc.abstractclassmethod
    def acm(cls, a, b=1):
        return 1

    @abc.abstractstaticmethod
    def asm(a, *, k=None):
        return 1

    @lazy
    def lp(self):
        return 1

    @abc.abstractproperty
    def ap(self):
        return 1

    def plain(self, a):
        return 1

    class N:
        @abc.abstractclassmethod
        def ncm(cls, /, a):
            return 1
'''

ANN_SRC = '''
from typing import List, Optional


def partly(a, b: int = 5, /, c: str = "x", *rest: int, d=None, e: Optional[int] = None, **kw: str) -> int:
    return 1


def fully(a: int, b: List[int] = [], *, c: "str" = "s") -> "int":
    return 1


class Box:
    def put(self, item, count: int = 1, /, label: str = "", *, force=False):
        return 1

    @staticmethod
    def make(size: int = 3, name=None) -> int:
        return 1

    @classmethod
    def build(cls, n: int = 0, *parts, flag: bool = False):
        return 1

    class Lid:
        async def turn(self, by: float = 0.5, *, back: bool = True) -> int:
            return 1
'''

SAME_SRC = '''
def same(a, b=1):
    return 1


class C1:
    def same(self, a, b=1):
        return 1


class C3:
    @classmethod
    def same(cls, a, b=1):
        return 1


class C4:
    @staticmethod
    def same(a, b=1):
        return 1

    class N2:
        def same(self, a, b=1):
            return 1

        class D3:
            def same(self, a, b=1):
                return 1

            def other(self, a, b=1):
                return 1

            class E4:
                @staticmethod
                def same(a, b=1):
                    return 1


class C5:
    @property
    def same(self):
        return 1
'''


def special_stage(res: Result, ctx: Ctx, srcdir: Path) -> None:
    """(1) one module whose functions all share one name but differ in kind, every order of the traces;
    (2) traces of two modules interleaved in one build_module_stubs_from_traces call."""
    from monkeytype.stubs import build_module_stubs_from_traces

    K, P2 = ("K", None), ("K", "1")
    pl = (K, P2)
    metas = [
        {"idx": 0, "path": (), "name": "same", "kind": "function", "params": pl, "names": ["a", "b"], "recv": ""},
        {"idx": 1, "path": ("C1",), "name": "same", "kind": "instance", "params": pl, "names": ["a", "b"], "recv": "self"},
        {"idx": 2, "path": ("C3",), "name": "same", "kind": "classmethod", "params": pl, "names": ["a", "b"], "recv": "cls"},
        {"idx": 3, "path": ("C4",), "name": "same", "kind": "staticmethod", "params": pl, "names": ["a", "b"], "recv": ""},
        {"idx": 4, "path": ("C4", "N2"), "name": "same", "kind": "instance", "params": pl, "names": ["a", "b"], "recv": "self"},
        {"idx": 5, "path": ("C5",), "name": "same", "kind": "property", "params": (), "names": [], "recv": "self"},
        {"idx": 6, "path": ("C4", "N2", "D3"), "name": "same", "kind": "instance", "params": pl, "names": ["a", "b"], "recv": "self"},
        {"idx": 7, "path": ("C4", "N2", "D3"), "name": "other", "kind": "instance", "params": pl, "names": ["a", "b"], "recv": "self"},
        {"idx": 8, "path": ("C4", "N2", "D3", "E4"), "name": "same", "kind": "staticmethod", "params": pl, "names": ["a", "b"], "recv": ""},
    ]
    modname = f"c12same_{ctx.seed}"
    (srcdir / f"{modname}.py").write_text(SAME_SRC)
    importlib.invalidate_caches()
    mod = importlib.import_module(modname)
    orders = list(itertools.permutations(range(6)))
    orders = [o + (6, 7, 8) for o in orders[::7]] + [(8, 7, 6) + o for o in orders[::11]] + [(6, 0, 7, 3, 8, 1, 2, 4, 5), (7, 8, 6, 5, 4, 3, 2, 1, 0)]
    for order in orders:
        res.states += 1
        case = {"module_index": -1, "subset": list(order), "tier": ctx.tier}
        try:
            tr = traces_for(mod, metas, tuple(order))
            text = build_module_stubs_from_traces(tr, 0)[modname].render()
        except Exception as e:  # noqa: BLE001
            res.violate(Violation(ID, "exception", type(e).__name__, case, f"same-named functions: raised {e!r}"))
            continue
        res.validated += 1
        res.evaluations += 1
        res.transitions += 6
        for kind, sig, msg in check_subset(text, mod, metas, tuple(order))[:2]:
            res.violate(Violation(ID, kind, "same-named:" + sig, case, f"functions all named `same`, trace order {order}: " + msg))
        # the same traces through the other entry point (a StubIndexBuilder used as the tracing logger)
        try:
            from monkeytype.stubs import StubIndexBuilder

            sib_same = StubIndexBuilder(".*", 0)
            for t in tr:
                sib_same.log(t)
            text_sib = sib_same.get_stubs()[modname].render()
        except Exception as e:  # noqa: BLE001
            res.violate(Violation(ID, "exception", "StubIndexBuilder:" + type(e).__name__, case, f"same-named functions via StubIndexBuilder: raised {e!r}"))
            continue
        res.transitions += 6
        for kind, sig, msg in check_subset(text_sib, mod, metas, tuple(order))[:2]:
            res.violate(Violation(ID, kind, "same-named:StubIndexBuilder:" + sig, case, f"functions all named `same`, trace order {order}, via StubIndexBuilder: " + msg))
    res.oblige("special:same-named-functions", True)
    # a long-lived StubIndexBuilder across an edit of the source: traces of version 1 arrive, the module is edited and
    # reloaded, traces of version 2 arrive - the stub mirrors the function as it is NOW (the real function)
    import importlib as il

    from monkeytype.stubs import StubIndexBuilder
    from monkeytype.tracing import CallTrace

    rname = f"c12reload_{ctx.seed}"
    versions = ["def f(a, b=1):\n    return a\n\n\nclass R:\n    def m(self, x):\n        return x\n",
                "def f(a, /, b=1, *args, c=None, **kw):\n    return a\n\n\nclass R:\n    def m(self, x, *, y=2):\n        return x\n",
                "def f(a):\n    return a\n\n\nclass R:\n    @staticmethod\n    def m(x, y=2):\n        return x\n"]
    rmetas_by_version = [
        [{"idx": 0, "path": (), "name": "f", "kind": "function", "params": (), "names": [], "recv": ""}, {"idx": 1, "path": ("R",), "name": "m", "kind": "instance", "params": (), "names": [], "recv": "self"}],
        [{"idx": 0, "path": (), "name": "f", "kind": "function", "params": (), "names": [], "recv": ""}, {"idx": 1, "path": ("R",), "name": "m", "kind": "instance", "params": (), "names": [], "recv": "self"}],
        [{"idx": 0, "path": (), "name": "f", "kind": "function", "params": (), "names": [], "recv": ""}, {"idx": 1, "path": ("R",), "name": "m", "kind": "staticmethod", "params": (), "names": [], "recv": ""}],
    ]
    sib_r = StubIndexBuilder(rname, 0)
    rmod = None
    for vi, vsrc in enumerate(versions):
        (srcdir / f"{rname}.py").write_text(vsrc + f"# version {vi}\n" * (vi + 1))
        il.invalidate_caches()
        rmod = il.import_module(rname) if rmod is None else il.reload(rmod)
        res.states += 1
        res.transitions += 2
        res.evaluations += 1
        res.validated += 1
        case = {"module_index": -7, "subset": [vi], "tier": ctx.tier}
        try:
            raw_m = inspect.getattr_static(rmod.R, "m")
            fm = raw_m.__func__ if isinstance(raw_m, staticmethod) else raw_m
            sib_r.log(CallTrace(rmod.f, {"a": int}, int, None))
            sib_r.log(CallTrace(fm, {"x": int} if vi == 2 else {"self": rmod.R, "x": int}, int, None))
            text_r = sib_r.get_stubs()[rname].render()
        except Exception as e:  # noqa: BLE001
            res.violate(Violation(ID, "exception", "StubIndexBuilder-across-reload:" + type(e).__name__, case, f"version {vi}: raised {e!r}"))
            continue
        for kind, sig, msg in check_subset(text_r, rmod, rmetas_by_version[vi], (0, 1))[:2]:
            res.violate(Violation(ID, kind, "StubIndexBuilder-across-reload:" + sig, case, f"one StubIndexBuilder, source edited and reloaded (now version {vi}): " + msg + "\n" + text_r))
    res.oblige("special:index-across-reload", True)
    # partially annotated sources under the three existing-annotation strategies: names, kinds, order and presence of
    # defaults mirror the real function whatever happens to the annotations (which C13 judges)
    from monkeytype.stubs import ExistingAnnotationStrategy

    ametas = [
        {"idx": 0, "path": (), "name": "partly", "kind": "function", "params": (), "names": [], "recv": ""},
        {"idx": 1, "path": (), "name": "fully", "kind": "function", "params": (), "names": [], "recv": ""},
        {"idx": 2, "path": ("Box",), "name": "put", "kind": "instance", "params": (), "names": [], "recv": "self"},
        {"idx": 3, "path": ("Box",), "name": "make", "kind": "staticmethod", "params": (), "names": [], "recv": ""},
        {"idx": 4, "path": ("Box",), "name": "build", "kind": "classmethod", "params": (), "names": [], "recv": "cls"},
        {"idx": 5, "path": ("Box", "Lid"), "name": "turn", "kind": "cocoroutine", "params": (), "names": [], "recv": "self"},
    ]
    amod_name = f"c12ann_{ctx.seed}"
    (srcdir / f"{amod_name}.py").write_text(ANN_SRC)
    importlib.invalidate_caches()
    amod = importlib.import_module(amod_name)
    for strat in ExistingAnnotationStrategy:
        for r in range(1, len(ametas) + 1):
            for subset in itertools.combinations(range(len(ametas)), r):
                res.states += 1
                case = {"module_index": -3, "subset": list(subset), "tier": ctx.tier, "strategy": strat.name}
                try:
                    text = build_module_stubs_from_traces(traces_for(amod, ametas, subset), 0, existing_annotation_strategy=strat)[amod_name].render()
                except Exception as e:  # noqa: BLE001
                    res.violate(Violation(ID, "exception", type(e).__name__, case, f"annotated sources, {strat.name}: raised {e!r}"))
                    continue
                res.validated += 1
                res.evaluations += 1
                res.transitions += len(subset)
                for kind, sig, msg in check_subset(text, amod, ametas, subset)[:2]:
                    res.violate(Violation(ID, kind, f"annotated-source:{strat.name}:" + sig, case, f"partially annotated source, strategy {strat.name}: " + msg))
    res.oblige("special:annotated-sources-x-strategies", True)
    # methods declared through SUBCLASSES of the descriptors (abc.abstractclassmethod / abstractstaticmethod /
    # abstractproperty, a project's own `class lazy(property)`): same decorators as the plain descriptors
    dmetas = [
        {"idx": 0, "path": ("D",), "name": "acm", "kind": "classmethod", "params": (), "names": [], "recv": "cls"},
        {"idx": 1, "path": ("D",), "name": "asm", "kind": "staticmethod", "params": (), "names": [], "recv": ""},
        {"idx": 2, "path": ("D",), "name": "lp", "kind": "property", "params": (), "names": [], "recv": "self"},
        {"idx": 3, "path": ("D",), "name": "ap", "kind": "property", "params": (), "names": [], "recv": "self"},
        {"idx": 4, "path": ("D", "N"), "name": "ncm", "kind": "classmethod", "params": (), "names": [], "recv": "cls"},
        {"idx": 5, "path": ("D",), "name": "plain", "kind": "instance", "params": (), "names": [], "recv": "self"},
    ]
    dname = f"c12desc_{ctx.seed}"
    (srcdir / f"{dname}.py").write_text(DESC_SRC)
    importlib.invalidate_caches()
    dmod = importlib.import_module(dname)
    for r in range(1, len(dmetas) + 1):
        for subset in itertools.combinations(range(len(dmetas)), r):
            res.states += 1
            case = {"module_index": -4, "subset": list(subset), "tier": ctx.tier}
            try:
                text = build_module_stubs_from_traces(traces_for(dmod, dmetas, subset), 0)[dname].render()
            except Exception as e:  # noqa: BLE001
                res.violate(Violation(ID, "exception", type(e).__name__, case, f"descriptor subclasses: raised {e!r}"))
                continue
            res.validated += 1
            res.evaluations += 1
            res.transitions += len(subset)
            for kind, sig, msg in check_subset(text, dmod, dmetas, subset)[:2]:
                res.violate(Violation(ID, kind, "descriptor-subclass:" + sig, case, "descriptor subclasses: " + msg))
    res.oblige("special:descriptor-subclasses", True)
    # traces recorded with TypedDict inference on, from dicts whose string keys are not identifiers: the stub still parses
    from monkeytype.tracing import CallTrace
    from monkeytype.typing import get_type

    for ki, val in enumerate(({"content-type": 1, "from": "x"}, {"a b": 1}, {"": 1}, {"1x": 2}, {"class": 1}, {"ok": {"not-ok": 1}}, [{"x-y": 1}], {"ok": 1})):
        for k in (1, 3, 10):
            res.states += 1
            res.evaluations += 1
            res.validated += 1
            res.transitions += 1
            case = {"module_index": -6, "subset": [ki, k], "tier": ctx.tier}
            try:
                t = get_type(val, k)
                text = build_module_stubs_from_traces([CallTrace(dmod.D.plain, {"self": dmod.D, "a": t}, t, None)], k)[dname].render()
                ast.parse(text)
            except SyntaxError as e:
                res.violate(Violation(ID, "syntax", "typed-dict-field-not-an-identifier", case, f"value {val!r} traced with max_typed_dict_size={k}: the stub does not parse ({e.msg} line {e.lineno}): {text[:300]!r}"))
            except Exception as e:  # noqa: BLE001
                res.violate(Violation(ID, "exception", "typed-dict-field-not-an-identifier", case, f"value {val!r}, k={k}: raised {e!r}"))
    res.oblige("special:non-identifier-dict-keys", True)
    # (1) coroutine functions behind a synchronous functools.wraps decorator, with the traces taken through the row
    #     encoding and back (as the CLI gets them): still `async def`, still the real parameter list
    # (2) real tracing into a StubIndexBuilder of a class with read-only and read/write properties: whatever the stub
    #     shows for a name that is a property on the class carries @property
    from monkeytype.encoding import CallTraceRow
    from monkeytype.stubs import StubIndexBuilder
    from monkeytype.tracing import trace_calls

    wname = f"c12wrap_{ctx.seed}"
    (srcdir / f"{wname}.py").write_text(WRAP_SRC)
    importlib.invalidate_caches()
    wmod = importlib.import_module(wname)
    wmetas = [
        {"idx": 0, "path": (), "name": "dco", "kind": "coroutine", "params": (), "names": [], "recv": ""},
        {"idx": 1, "path": ("W",), "name": "mco", "kind": "cocoroutine", "params": (), "names": [], "recv": "self"},
        {"idx": 2, "path": (), "name": "dfn", "kind": "function", "params": (), "names": [], "recv": ""},
    ]
    for r in range(1, 4):
        for subset in itertools.combinations(range(3), r):
            res.states += 1
            res.evaluations += 1
            res.validated += 1
            res.transitions += len(subset)
            case = {"module_index": -7, "subset": list(subset), "tier": ctx.tier}
            try:
                trs = [CallTraceRow.from_trace(t).to_trace() for t in traces_for(wmod, wmetas, subset)]
                text = build_module_stubs_from_traces(trs, 0)[wname].render()
            except Exception as e:  # noqa: BLE001
                res.violate(Violation(ID, "exception", "wrapped-coroutine", case, f"decorated coroutine through the row round trip: raised {e!r}"))
                continue
            for kind, sig, msg in check_subset(text, wmod, wmetas, subset)[:2]:
                res.violate(Violation(ID, kind, "wrapped-coroutine:" + sig, case, "coroutine behind a functools.wraps decorator, traces decoded from rows: " + msg))
    sib = StubIndexBuilder(wname, 0)
    with trace_calls(sib, 0, lambda code: code.co_filename == wmod.__file__):
        p_ = wmod.Props()
        p_.ro
        p_.rw
        p_.rw = 3
        p_.plain(1)
    res.states += 1
    res.evaluations += 1
    res.validated += 1
    res.transitions += 4
    case = {"module_index": -8, "subset": [0], "tier": ctx.tier}
    try:
        text = sib.get_stubs()[wname].render()
        tree = ast.parse(text)
        for (path, fname), nodes in collect(tree).items():
            if path != ("Props",):
                continue
            raw = inspect.getattr_static(wmod.Props, fname, None)
            decos = [ast.unparse(d_) for d_ in nodes[0].decorator_list]
            if isinstance(raw, property) and decos != ["property"]:
                res.violate(Violation(ID, "decorator", "traced-property", case, f"Props.{fname} is a property on the class; the stub built from a real tracing session shows it with decorators {decos}:\n{text}"))
        if not any(k == (("Props",), "ro") for k in collect(tree)):
            res.violate(Violation(ID, "placement", "traced-property", case, f"the traced read-only property Props.ro is missing from the stub:\n{text}"))
    except Exception as e:  # noqa: BLE001
        res.violate(Violation(ID, "exception", "traced-property", case, f"raised {e!r}"))
    res.oblige("special:wrapped-coroutines-and-traced-properties", True)
    # two modules interleaved
    gs = groups(ctx.tier)
    for a_i, b_i in ((0, 1), (2, 5)):
        srcs = []
        mods = []
        for mi in (a_i, b_i):
            src, ms = gen_module(gs[mi], mi * 10)
            mn = f"c12il_{ctx.seed}_{mi}"
            (srcdir / f"{mn}.py").write_text(src)
            importlib.invalidate_caches()
            mods.append((importlib.import_module(mn), ms, mn))
        for pattern in ("abab", "aabb", "abba", "baab"):
            ta = traces_for(mods[0][0], mods[0][1], tuple(range(len(mods[0][1]))))
            tb = traces_for(mods[1][0], mods[1][1], tuple(range(len(mods[1][1]))))
            seq = []
            ia = ib = 0
            while ia < len(ta) or ib < len(tb):
                for ch in pattern:
                    if ch == "a" and ia < len(ta):
                        seq.append(ta[ia]); ia += 1
                    elif ch == "b" and ib < len(tb):
                        seq.append(tb[ib]); ib += 1
            res.states += 1
            case = {"module_index": -2, "subset": [a_i, b_i], "tier": ctx.tier}
            try:
                stubs = build_module_stubs_from_traces(seq, 0)
            except Exception as e:  # noqa: BLE001
                res.violate(Violation(ID, "exception", type(e).__name__, case, f"interleaved modules: raised {e!r}"))
                continue
            res.validated += 1
            res.evaluations += 1
            for (mod_, ms, mn) in mods:
                text = stubs[mn].render() if mn in stubs else ""
                for kind, sig, msg in check_subset(text, mod_, ms, tuple(range(len(ms))))[:2]:
                    if sig == "method-of-nested-class":
                        sig = "nested"
                    res.violate(Violation(ID, kind, "interleaved-modules:" + sig, case, f"traces of two modules interleaved ({pattern}): module {mn}: " + msg))
    res.oblige("special:interleaved-modules", True)


def groups(tier: str):
    sp = specs(tier)
    # stripe so that each module mixes kinds/depths: sort by a mixing key, then chunks of 5
    sp = sorted(sp, key=lambda s: (__import__("zlib").crc32(repr((len(s[2]), s[0], s[1])).encode()) % 7, 0))
    k = 5
    sp2: List[Any] = []
    n = len(sp)
    stride = (n + k - 1) // k
    for i in range(stride):
        sp2.append([sp[j] for j in range(i, n, stride)])
    return sp2


def run(ctx: Ctx) -> Result:
    gs = groups(ctx.tier)
    nshards = ctx.workers * 2

    def shard(ctx: Ctx, si: int) -> Result:
        res = Result()
        srcdir = ctx.tmp / f"c12_{si}"
        srcdir.mkdir(exist_ok=True)
        sys.path.insert(0, str(srcdir))
        for mi in range(si, len(gs), nshards):
            run_module(res, ctx, mi, gs[mi], srcdir)
        if si == 0:
            special_stage(res, ctx, srcdir)
        return res

    res = run_shards(ctx, shard, list(range(nshards)))
    for o in ("saw:StubIndexBuilder", "special:same-named-functions", "special:index-across-reload", "special:annotated-sources-x-strategies", "special:descriptor-subclasses", "special:non-identifier-dict-keys", "special:wrapped-coroutines-and-traced-properties", "special:interleaved-modules", "saw:wrapped-signature", "saw:posonly-separator", "saw:kwonly-separator", "saw:async"):
        res.obligations.setdefault(o, False)
    res.bounds.update({"max_params": "4 (+5 for function, instance, async static)" if ctx.tier == "thorough" else "3 (+4 for function/instance)", "modules": len(gs), "functions_per_module": 5, "subsets": "all 31"})
    return res


def replay(case: Dict[str, Any], ctx: Ctx) -> List[Violation]:
    res = Result()
    gs = groups(case["tier"])
    srcdir = ctx.tmp / "c12_replay"
    srcdir.mkdir(exist_ok=True)
    sys.path.insert(0, str(srcdir))
    ctx.tier = case["tier"]
    if case["module_index"] < 0:
        special_stage(res, ctx, srcdir)
        return res.violations
    run_module(res, ctx, case["module_index"], gs[case["module_index"]], srcdir, [tuple(case["subset"])])
    return res.violations
