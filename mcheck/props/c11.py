"""C11 — rendered annotations denote the inferred type and stubs are self-contained.
Engine E1: type builders x ordered pairs (thorough: triples) of classes from a fixture package with colliding module
names x TypedDicts at every container position x target modules; oracle = stubeval (evaluate with the stub's own
names) + structural equality with the type that was rendered."""
from __future__ import annotations

import io
import itertools
import sys
import typing
from pathlib import Path
from typing import Any, Callable, DefaultDict, Dict, Generator, Iterator, List, Optional, Set, Tuple, Type, Union

from mcheck.core.par import run_shards
from mcheck.core.runner import VERIF, Ctx, Result, Violation
from mcheck.oracles import stubeval as SE
from mcheck.oracles import types as O

ID = "C11"
RULE = (
    "type builders (plain, List/Set/Dict/DefaultDict/Tuple/Tuple[()]/Tuple[T,...]/Type/Optional/Union/Callable/Iterator/"
    "Generator, anonymous TypedDicts at top/list/dict/tuple/defaultdict/nested positions) x every ordered pair "
    "(thorough: also triples) of 17 classes spread over modules utils / pkg.utils / foo / barfoo / pkg.typing / thing.thing / "
    "nest.Outer.Inner / _io / *NoneType* / the target's own class / builtins x target in {tgt, utils} x function kinds; "
    "plus 9 plain user classes named like typing constructs (Union, List, Generator, ...) x {plain, Optional, container of another name, TypedDict field, return} ; state = one rendered module stub, transition = one annotation evaluated in the stub's own namespace and compared "
    "structurally; non-trivial = annotation mentioning a non-builtin class"
)
EXPLANATION = "exhaustive bounded enumeration; translation validation of every rendered annotation"
ASSUMPTIONS = ["no two classes with the same short name in different modules (outside the alphabet)", "k=10 so single TypedDicts are never collapsed"]

COLLIDE = str(VERIF / "fixtures" / "collide")
LENIENT = ["_priv", "vfx.hidden", "utils", "pkg", "pkg.utils", "pkg.typing", "foo", "barfoo", "thing", "nest", "nonet", "tgt", "_io", "io", "typing", "vfx", "vfx.shapes"]


def setup_path() -> None:
    if COLLIDE not in sys.path:
        sys.path.insert(0, COLLIDE)


def classes() -> List[Any]:
    setup_path()
    import _io
    import _priv
    import barfoo
    import foo
    import nest
    import nonet
    import pkg.typing
    import pkg.utils
    import tgt
    import thing
    import utils
    import vfx.hidden as hidden

    return [
        utils.B, pkg.utils.C, pkg.P, foo.Baz, barfoo.Qux, pkg.typing.X, thing.thing, thing.thing.Point, nest.Outer.Inner, nest.Outer.Inner.Deep,
        _io.StringIO, _priv.PV, nonet.MyNoneType, nonet.NoneTypeX, tgt.Own, int, type(None),
    ]


def atd(req, opt=None):
    return SE.mk_atd(req, opt or {})


NoneT = type(None)


def builders() -> List[Tuple[str, Callable[[Any, Any], Any]]]:
    def opt(a):
        return Optional[a] if a is not NoneT else a

    return [
        ("plain", lambda a, b, u="": a),
        ("List", lambda a, b, u="": List[a]),
        ("Set", lambda a, b, u="": Set[a]),
        ("Dict", lambda a, b, u="": Dict[str, a]),
        ("Dict2", lambda a, b, u="": Dict[a, b]),
        ("DefaultDict", lambda a, b, u="": DefaultDict[str, a]),
        ("Tuple2", lambda a, b, u="": Tuple[a, b]),
        ("Tuple0", lambda a, b, u="": Tuple[()]),
        ("TupleEll", lambda a, b, u="": Tuple[a, ...]),
        ("Type", lambda a, b, u="": Type[a] if a is not NoneT else Type[b]),
        ("Optional", lambda a, b, u="": opt(a)),
        ("Union", lambda a, b, u="": Union[a, b]),
        ("Union3", lambda a, b, u="": Union[a, b, None]),
        ("ListUnion", lambda a, b, u="": List[Union[a, b]]),
        ("DictOptional", lambda a, b, u="": Dict[str, opt(a)]),
        ("Callable", lambda a, b, u="": Callable),
        ("Iterator", lambda a, b, u="": Iterator[Any]),
        ("ListList", lambda a, b, u="": List[List[a]]),
        ("TupleList", lambda a, b, u="": Tuple[List[a], b]),
        ("td", lambda a, b, u="": atd({"fa" + u: a})),
        ("td_opt", lambda a, b, u="": atd({"fa" + u: a}, {"fb" + u: b})),
        ("td_onlyopt", lambda a, b, u="": atd({}, {"fb" + u: b})),
        ("List_td", lambda a, b, u="": List[atd({"fa" + u: a})]),
        ("Dict_td", lambda a, b, u="": Dict[str, atd({"fa" + u: a})]),
        ("Tuple_td", lambda a, b, u="": Tuple[atd({"fa" + u: a}), b]),
        ("Tuple_td2", lambda a, b, u="": Tuple[atd({"fa" + u: a}), atd({"fb" + u: b})]),
        ("DefaultDict_td", lambda a, b, u="": DefaultDict[str, atd({"fa" + u: a})]),
        ("Tuple_td_List_td", lambda a, b, u="": Tuple[atd({"fa" + u: a}), List[atd({"fb" + u: b})]]),
        ("Tuple_Dict_td_td", lambda a, b, u="": Tuple[Dict[str, atd({"fa" + u: a})], atd({"fb" + u: b})]),
        ("OptionalUnion", lambda a, b, u="": Union[a, b, None] if a is not b else Optional[a]),
        ("td_nested", lambda a, b, u="": atd({"fa" + u: atd({"fb" + u: b})})),
        ("td_list_field", lambda a, b, u="": atd({"fa" + u: List[a], "fb" + u: Optional[b] if b is not NoneT else b})),
        # generics the renderer does not descend into (rendered through repr): their arguments are typing constructs again
        ("Callable_args", lambda a, b, u="": Callable[[List[a]], opt(b)]),
        ("Mapping_List", lambda a, b, u="": typing.Mapping[str, List[a]]),
        ("Sequence_Optional", lambda a, b, u="": typing.Sequence[opt(a)]),
        ("Awaitable_Dict", lambda a, b, u="": typing.Awaitable[Dict[str, a]]),
        # a TypedDict whose FIELD holds TypedDicts below a container (one level down inside another generated class)
        ("td_field_List_td", lambda a, b, u="": atd({"fa" + u: List[atd({"fb" + u: b})]})),
        ("td_field_Dict_td", lambda a, b, u="": atd({"fa" + u: Dict[str, atd({"fb" + u: b})], "fc" + u: a})),
        ("td_field_Tuple_td", lambda a, b, u="": atd({"fa" + u: Tuple[a, atd({"fb" + u: b})]})),
        ("td_field_Optional_td", lambda a, b, u="": atd({}, {"fa" + u: Optional[atd({"fb" + u: b})]})),
    ]


def targets():
    setup_path()
    import tgt
    import utils

    return [
        ("tgt", tgt, [("f", tgt.f, "x1"), ("K.m", tgt.K.m, "x3"), ("K.cm", tgt.K.cm.__func__, "x4"), ("K.sm", tgt.K.sm, "x5")], ("g", tgt.g, "x2")),
        ("utils", utils, [("uf", utils.uf, "x6"), ("UK.um", utils.UK.um, "x7")], None),
    ]


def own_names(mod) -> Dict[str, Any]:
    return {n: v for n, v in vars(mod).items() if isinstance(v, type) and v.__module__ == mod.__name__}


def expected_return(ret, yld):
    if yld is not None:
        if ret is None or ret is NoneT:
            return Iterator[yld]
        return Generator[yld, None, ret]
    return ret


def check_stub(text: str, modname: str, mod, expect: List[Tuple[Tuple[Tuple[str, ...], str], Dict[str, Any], Any]], tag: str) -> List[Tuple[str, str, str]]:
    """expect: list of ((class path, name), {param: type}, return type or None)."""
    out: List[Tuple[str, str, str]] = []
    info = SE.parse(text, own_names(mod), lenient_modules=LENIENT)
    if info.syntax_error:
        return [("syntax", tag, f"stub does not parse: {info.syntax_error}")]
    for e in info.import_errors:
        out.append(("import", tag, f"import block fails: {e}"))
    for key, params, ret in expect:
        fis = info.funcs.get(key)
        if not fis:
            out.append(("missing", tag, f"function {key} missing from stub"))
            continue
        fi = fis[0]
        for pname, T in list(params.items()) + ([("return", ret)] if ret is not None else []):
            present = fi.has_return if pname == "return" else (pname in fi.ann)
            got = fi.returns if pname == "return" else fi.ann.get(pname)
            src = fi.returns_src if pname == "return" else fi.ann_src.get(pname)
            if not present:
                out.append(("missing", tag, f"{key} {pname}: no annotation, expected {O.show(T)}"))
                continue
            norm = SE.normalize(got, info)
            if isinstance(norm, SE.Err):
                sig = "typed-dict-field-name-unprovided" if norm.msg.startswith("TDFIELD") else tag
                out.append(("unresolved", sig, f"{key} {pname}: annotation {src!r} does not evaluate: {norm.msg} (expected {O.show(T)})"))
                continue
            if O.struct(norm) != O.struct(T):
                if info.duplicate_classes and any(d in (src or "") or d in text for d in info.duplicate_classes):
                    out.append(("wrong-type", "typed-dict-class-name-collision:" + BN.get((key, pname), "?"), f"{key} {pname}: annotation {src!r} denotes {O.show(norm)}, expected {O.show(T)}; the stub defines {info.duplicate_classes} more than once"))
                    continue
                out.append(("wrong-type", tag, f"{key} {pname}: annotation {src!r} denotes {O.show(norm)}, expected {O.show(T)}"))
    # every field of every generated class must evaluate too (names used anywhere in the stub)
    for msg in info.td_field_errors:
        out.append(("unresolved", "typed-dict-field-name-unprovided", msg))
    for cname, rec in info.td_classes.items():
        for fname, val in rec["fields"].items():
            n = SE.normalize(val, info)
            if isinstance(n, SE.Err):
                out.append(("unresolved", "typed-dict-field", f"TypedDict class {cname}.{fname}: {n.msg}"))
    return out


def build(traces, k: int = 10) -> Dict[str, str]:
    from monkeytype.stubs import build_module_stubs_from_traces

    stubs = build_module_stubs_from_traces(traces, k)
    return {m: s.render() for m, s in stubs.items()}


def build_via_index(traces, k: int = 10) -> Dict[str, str]:
    """The other public way to a ModuleStub: a StubIndexBuilder used as the trace logger."""
    from monkeytype.stubs import StubIndexBuilder

    sib = StubIndexBuilder(".*", k)
    for t in traces:
        sib.log(t)
    return {m: s.render() for m, s in sib.get_stubs().items()}


BN: Dict[Any, str] = {}


def make_case(cls: List[Any], bs, tg, ai: int, bi: int, i: int, ci: Optional[int] = None, single: bool = False):
    """One module stub: every function of the target gets a different builder over (a, b); `single`: only the first
    function and only its parameter (so that no other annotation can provide a missing import)."""
    from monkeytype.tracing import CallTrace

    modname, mod, funcs, gen = tg
    if single:
        qn, fn, pn = funcs[0]
        T = bs[i % len(bs)][1](cls[ai], cls[bi], "p0")
        BN[((tuple(qn.split(".")[:-1]), qn.split(".")[-1]), pn)] = bs[i % len(bs)][0]
        return [CallTrace(fn, {pn: T}, None, None)], [((tuple(qn.split(".")[:-1]), qn.split(".")[-1]), {pn: T}, None)]
    a, b = cls[ai], cls[bi]
    c = cls[ci] if ci is not None else None
    traces = []
    expect = []
    for j, (qn, fn, pn) in enumerate(funcs):
        bn1, b1 = bs[(i + j) % len(bs)]
        bn2, b2 = bs[(i + j + 7) % len(bs)]
        T = b1(a, b, f"p{j}")
        R = b2(b, c if c is not None else a, f"r{j}")
        traces.append(CallTrace(fn, {pn: T}, R, None))
        path = tuple(qn.split(".")[:-1])
        expect.append(((path, qn.split(".")[-1]), {pn: T}, R))
        BN[((path, qn.split(".")[-1]), pn)] = bn1
        BN[((path, qn.split(".")[-1]), "return")] = bn2
    if gen is not None:
        bn1, b1 = bs[i % len(bs)]
        Y = b1(a, b, "y")
        R = b if (i % 2) else None
        traces.append(CallTrace(gen[1], {gen[2]: a}, R, Y))
        expect.append((((), gen[0]), {gen[2]: a}, expected_return(R, Y)))
        BN[(((), gen[0]), "return")] = bn1
    return traces, expect


def tag_of(bs, i: int, a, b) -> str:
    bn = bs[i % len(bs)][0]
    return ("td" if "td" in bn else "plain")


def run(ctx: Ctx) -> Result:
    setup_path()
    cls = classes()
    bs = builders()
    tgs = targets()
    cases = [(ti, ai, bi, i, None) for ti in range(len(tgs)) for ai in range(len(cls)) for bi in range(len(cls)) for i in range(len(bs))]
    cases += [(ti, ai, bi, i, "single") for ti in range(len(tgs)) for ai in range(len(cls)) for bi in range(len(cls)) for i in range(len(bs))]
    if ctx.tier == "thorough":
        cases += [(0, ai, bi, i, ci) for ai in range(len(cls)) for bi in range(len(cls)) for ci in range(len(cls)) for i in range(0, len(bs), 2) if ci not in (ai, bi)]
    nshards = ctx.workers * 2

    def shard(ctx: Ctx, si: int) -> Result:
        res = Result()
        for n in range(si, len(cases), nshards):
            ti, ai, bi, i, ci = cases[n]
            tg = tgs[ti]
            res.states += 1
            case = {"target": ti, "a": ai, "b": bi, "builder": i, "c": ci}
            try:
                traces, expect = make_case(cls, bs, tg, ai, bi, i, None if ci == "single" else ci, single=(ci == "single"))
                text = build(traces)[tg[0]]
            except Exception as e:  # noqa: BLE001
                res.violate(Violation(ID, "exception", type(e).__name__, case, f"building/rendering raised {e!r}"))
                continue
            res.validated += 1
            res.evaluations += 1
            vs = check_stub(text, tg[0], tg[1], expect, tag_of(bs, i, cls[ai], cls[bi]))
            if ci == "single" or n % 4 == 0:
                try:
                    text2 = build_via_index(traces)[tg[0]]
                    vs2 = [(k_, "StubIndexBuilder:" + s_ if not s_.startswith("typed-dict") else s_, m_) for k_, s_, m_ in check_stub(text2, tg[0], tg[1], expect, tag_of(bs, i, cls[ai], cls[bi]))]
                    vs = vs + [v for v in vs2 if (v[0], v[1].replace("StubIndexBuilder:", "")) not in {(a, b) for a, b, _ in vs}]
                    res.oblige("saw:StubIndexBuilder", True)
                except Exception as e:  # noqa: BLE001
                    res.violate(Violation(ID, "exception", "StubIndexBuilder:" + type(e).__name__, case, f"StubIndexBuilder raised {e!r}"))
            res.transitions += sum(len(p) + 1 for _, p, _ in expect)
            for kind, sig, msg in vs[:3]:
                res.violate(Violation(ID, kind, sig, case, msg + "\n--- stub ---\n" + text[:1500]))
            if not vs:
                res.outcomes.add(hash(text))
                if any(c.__module__ != "builtins" for c in (cls[ai], cls[bi])):
                    res.nontrivial_n += 1
                if "TypedDict" in text:
                    res.oblige("saw:typed-dict-class", True)
                if "NonTotal" in text:
                    res.oblige("saw:nontotal", True)
            if n % 2503 == 0:
                res.sample({"case": case, "stub": text[:400]})
        return res

    res = run_shards(ctx, shard, list(range(nshards)))
    res.merge(typing_named_family())
    res.merge(defaults_family(ctx.quick))
    res.merge(extra_family(ctx.quick))
    res.obligations.setdefault("saw:typed-dict-class", False)
    res.obligations.setdefault("saw:nontotal", False)
    res.obligations.setdefault("saw:StubIndexBuilder", False)
    res.bounds.update({"classes": len(cls), "builders": len(bs), "targets": len(tgs), "tuples": "pairs" if ctx.quick else "pairs+triples"})
    return res


def typing_named_cases():
    import vfx.hidden as H

    out = []
    for ni, c in enumerate(H.TYPING_NAMED):
        forms = [("plain", c), ("Optional", Optional[c]), ("td", atd({"fz": c}))]
        forms.append(("Dict", Dict[str, c]) if c.__name__ != "Dict" else ("List", List[c]))
        forms.append(("Tuple", Tuple[c, int]) if c.__name__ != "Tuple" else ("Set", Set[c]))
        for fname, T in forms:
            out.append((ni, fname, T, c))
    return out


def typing_named_one(ni: int, fname: str):
    """A user class named like a typing construct, as the only parameter type and as the return type of tgt.f."""
    from monkeytype.tracing import CallTrace
    import tgt

    T = [t for n, f, t, _ in typing_named_cases() if (n, f) == (ni, fname)][0]
    vs = []
    for as_return in (False, True):
        tr = CallTrace(tgt.f, {"x1": int if as_return else T}, T if as_return else None, None)
        exp = [(((), "f"), {"x1": int if as_return else T}, T if as_return else None)]
        try:
            text = build([tr])["tgt"]
        except Exception as e:  # noqa: BLE001
            vs.append(("exception", "typing-named-class:" + type(e).__name__, f"building/rendering raised {e!r}", ""))
            continue
        vs += [(k, "typing-named-class" if not s_.startswith("typed-dict") else s_, m, text) for k, s_, m in check_stub(text, "tgt", tgt, exp, "typing-named-class")]
    return vs


def typing_named_family() -> Result:
    res = Result()
    for ni, fname, T, c in typing_named_cases():
        res.states += 1
        res.transitions += 2
        res.evaluations += 2
        res.validated += 2
        case = {"family": "typing_named", "class": ni, "form": fname}
        vs = typing_named_one(ni, fname)
        for kind, sig, msg, text in vs[:2]:
            res.violate(Violation(ID, kind, sig, case, msg + "\n--- stub ---\n" + text[:1200]))
        if not vs:
            res.nontrivial_n += 1
            res.oblige("saw:typing-named-class", True)
    res.obligations.setdefault("saw:typing-named-class", False)
    return res


def defaults_one(ai: int, bi: int, bidx: int):
    """tgt.fd8(x8=None) / fd9(x9=0) / fd10(*, x10=None), each stubbed ALONE (no other parameter or function can provide an
    import): a parameter whose default is None is rendered Optional[T] (also for T = Any and for T already optional), and
    whatever the rendering uses is imported."""
    from monkeytype.tracing import CallTrace
    import tgt

    cls, bs = classes(), builders() + [("Any", lambda a, b, u="": Any), ("ListAny", lambda a, b, u="": List[Any])]
    bn, b = bs[bidx]
    T = b(cls[ai], cls[bi], "d")
    vs = []
    for pname in ("x8", "x9", "x10"):
        fn = getattr(tgt, "fd" + pname[1:])
        tr = CallTrace(fn, {pname: T}, None, None)
        want = T if pname == "x9" else (T if (T is NoneT or (getattr(T, "__origin__", None) is Union and NoneT in T.__args__)) else Optional[T])
        BN[(((), fn.__name__), pname)] = bn
        try:
            text = build([tr])["tgt"]
        except Exception as e:  # noqa: BLE001
            vs.append(("exception", "default-none-parameter:" + type(e).__name__, f"building/rendering raised {e!r}", ""))
            continue
        tag = "default-none-parameter" if pname != "x9" else "defaulted-parameter"
        vs += [(k, tag if not s_.startswith("typed-dict") else s_, f"{pname} ({bn}): " + m, text) for k, s_, m in check_stub(text, "tgt", tgt, [(((), fn.__name__), {pname: want}, None)], tag)]
    return vs


def extra_one(which: str, ai: int, bidx: int):
    """Three small families (each returns [(kind, sig, msg, stub text)]):
    zero-arg   - a parameterless function returning a class of ITS OWN module is stubbed first, then another module's stub
                 mentions that class (alone, in List / Optional / Dict): the later stub still imports it;
    annotated  - a parameter that carries a source annotation (`opts: dict`) is traced with a TypedDict-shaped dict at
                 k = 10: whatever class definitions the stub emits can be evaluated with the stub's own imports;
    k0-nested  - anonymous TypedDicts below a container, stubbed with max_typed_dict_size = 0 (traces recorded under a
                 larger limit): the annotation still denotes the type and every name is provided."""
    from monkeytype.tracing import CallTrace
    import tgt
    import utils

    cls, bs = classes(), builders()
    vs = []
    if which == "zero-arg":
        try:
            first = build([CallTrace(tgt.make0, {}, tgt.Own, None)])["tgt"]
        except Exception as e:  # noqa: BLE001
            return [("exception", "zero-arg-own-class:" + type(e).__name__, f"raised {e!r}", "")]
        vs += [(k, "zero-arg-own-class", m, first) for k, s_, m in check_stub(first, "tgt", tgt, [(((), "make0"), {}, tgt.Own)], "zero-arg-own-class")]
        for form, T in (("plain", tgt.Own), ("List", List[tgt.Own]), ("Optional", Optional[tgt.Own]), ("Dict", Dict[str, tgt.Own])):
            BN[(((), "uf"), "x6")] = form
            try:
                text = build([CallTrace(utils.uf, {"x6": T}, T, None)])["utils"]
            except Exception as e:  # noqa: BLE001
                vs.append(("exception", "zero-arg-own-class:" + type(e).__name__, f"raised {e!r}", ""))
                continue
            vs += [(k, "class-of-a-module-stubbed-earlier", f"after tgt.make0() -> Own was stubbed in this process, {form}: " + m, text) for k, s_, m in check_stub(text, "utils", utils, [(((), "uf"), {"x6": T}, T)], "x")]
        return vs
    bn, b = bs[bidx]
    T = b(cls[ai], cls[(ai + 1) % len(cls)], "e")
    if which == "annotated":
        BN[(((), "fann"), "opts")] = bn
        try:
            text = build([CallTrace(tgt.fann, {"opts": T}, None, None)])["tgt"]
        except Exception as e:  # noqa: BLE001
            return [("exception", "annotated-parameter:" + type(e).__name__, f"({bn}) raised {e!r}", "")]
        # the source annotation is replicated; what must hold is that the stub as a whole evaluates
        return [(k, "annotated-parameter" if not s_.startswith("typed-dict") else s_, f"({bn}) " + m, text) for k, s_, m in check_stub(text, "tgt", tgt, [(((), "fann"), {"opts": dict}, None)], "annotated-parameter")]
    if which == "annotated-nested-generic":
        # a source annotation that is a subscripted user generic nested in a class of another module (replicated into the
        # stub): the stub provides every name the annotation uses
        import nest

        BN[(((), "fgen"), "x")] = "plain"
        try:
            text = build([CallTrace(tgt.fgen, {"x": cls[ai]}, None, None)])["tgt"]
        except Exception as e:  # noqa: BLE001
            return [("exception", "annotated-nested-generic:" + type(e).__name__, f"raised {e!r}", "")]
        return [(k, "annotated-nested-generic" if not s_.startswith("typed-dict") else s_, m, text) for k, s_, m in check_stub(text, "tgt", tgt, [(((), "fgen"), {"b": nest.Holder.GBox[int], "x": Optional[cls[ai]] if cls[ai] is not NoneT else cls[ai]}, None)], "annotated-nested-generic")]
    if which == "gen-yield-and-return":
        # a generator that yields dicts AND returns a dict: both generated classes are in the stub
        Y, R = atd({"fy": cls[ai]}), atd({"fr": cls[(ai + 1) % len(cls)], "fy": int})
        BN[(((), "g"), "return")] = "gen_td_td"
        try:
            text = build([CallTrace(tgt.g, {"x2": int}, R, Y)])["tgt"]
        except Exception as e:  # noqa: BLE001
            return [("exception", "generator-yield-and-return-typed-dicts:" + type(e).__name__, f"raised {e!r}", "")]
        return [(k, "generator-yield-and-return-typed-dicts" if not s_.startswith("typed-dict") else s_, m, text) for k, s_, m in check_stub(text, "tgt", tgt, [(((), "g"), {"x2": int}, Generator[Y, None, R])], "generator-yield-and-return-typed-dicts")]
    if which == "k0-nested":
        BN[(((), "f"), "x1")] = bn
        try:
            text = build([CallTrace(tgt.f, {"x1": T}, None, None)], 0)["tgt"]
        except Exception as e:  # noqa: BLE001
            return [("exception", "limit-0-nested-typed-dict:" + type(e).__name__, f"({bn}) stub generation with max_typed_dict_size=0 raised {e!r}", "")]
        return [(k, "limit-0-nested-typed-dict" if not s_.startswith("typed-dict") else s_, f"({bn}, limit 0) " + m, text) for k, s_, m in check_stub(text, "tgt", tgt, [(((), "f"), {"x1": T}, None)], "limit-0-nested-typed-dict")]
    raise ValueError(which)


NESTED_TD_BUILDERS = ["List_td", "Dict_td", "Tuple_td", "Tuple_td2", "DefaultDict_td", "Tuple_td_List_td"]


def extra_family(quick: bool) -> Result:
    res = Result()
    cls, bs = classes(), builders()
    names = [n for n, _ in bs]
    todo = [("zero-arg", 0, 0)]
    for ai in ((0, 3) if quick else range(len(cls))):
        todo += [("annotated", ai, names.index(n)) for n in ("td", "td_opt", "List_td", "Dict", "plain")]
        todo += [("k0-nested", ai, names.index(n)) for n in NESTED_TD_BUILDERS]
        todo += [("gen-yield-and-return", ai, 0)]
        todo += [("annotated-nested-generic", ai, 0)]
    for which, ai, bidx in todo:
        res.states += 1
        res.transitions += 2
        res.evaluations += 1
        res.validated += 1
        case = {"family": "extra", "which": which, "a": ai, "builder": bidx}
        vs = extra_one(which, ai, bidx)
        for kind, sig, msg, text in vs[:2]:
            res.violate(Violation(ID, kind, sig, case, msg + "\n--- stub ---\n" + text[:1200]))
        if not vs:
            res.nontrivial_n += 1
        if not any(k in ("exception", "syntax") for k, *_ in vs):
            res.oblige("saw:extra:" + which, True)
    for w in ("zero-arg", "annotated", "k0-nested", "gen-yield-and-return", "annotated-nested-generic"):
        res.obligations.setdefault("saw:extra:" + w, False)
    return res


def defaults_family(quick: bool) -> Result:
    res = Result()
    cls, nb = classes(), len(builders()) + 2
    pairs = [(0, 1), (3, 0), (len(cls) - 1, 2)] if quick else [(a, (a + 1) % len(cls)) for a in range(len(cls))]
    for ai, bi in pairs:
        for bidx in range(nb):
            res.states += 1
            res.transitions += 3
            res.evaluations += 3
            res.validated += 3
            case = {"family": "defaults", "a": ai, "b": bi, "builder": bidx}
            vs = defaults_one(ai, bi, bidx)
            for kind, sig, msg, text in vs[:2]:
                res.violate(Violation(ID, kind, sig, case, msg + "\n--- stub ---\n" + text[:1200]))
            if not vs:
                res.nontrivial_n += 1
                res.oblige("saw:default-none-parameter", True)
    res.obligations.setdefault("saw:default-none-parameter", False)
    return res


def replay(case: Dict[str, Any], ctx: Ctx) -> List[Violation]:
    setup_path()
    if case.get("family") == "extra":
        return [Violation(ID, k, s, case, m) for k, s, m, _ in extra_one(case["which"], case["a"], case["builder"])]
    if case.get("family") == "defaults":
        return [Violation(ID, k, s, case, m) for k, s, m, _ in defaults_one(case["a"], case["b"], case["builder"])]
    if case.get("family") == "typing_named":
        return [Violation(ID, k, s, case, m) for k, s, m, _ in typing_named_one(case["class"], case["form"])]
    cls, bs, tgs = classes(), builders(), targets()
    tg = tgs[case["target"]]
    try:
        traces, expect = make_case(cls, bs, tg, case["a"], case["b"], case["builder"], None if case.get("c") == "single" else case.get("c"), single=(case.get("c") == "single"))
        text = build(traces)[tg[0]]
    except Exception as e:  # noqa: BLE001
        return [Violation(ID, "exception", type(e).__name__, case, repr(e))]
    vs = check_stub(text, tg[0], tg[1], expect, tag_of(bs, case["builder"], None, None))
    return [Violation(ID, k, s, case, m) for k, s, m in vs]
