"""Fresh-interpreter stub generation for C14 (PYTHONHASHSEED set by the parent): prints the stub of vfx.shapes."""
import sys

db, k, rewriting = sys.argv[1], int(sys.argv[2]), sys.argv[3] == "1"
import mcfg  # noqa: E402
from monkeytype import cli  # noqa: E402

mcfg.reset(db=db, k=k, limit=int(sys.argv[4]) if len(sys.argv) > 4 else None)
rc_all = 0
for i, mod in enumerate(["vfx.shapes", "vfx.shapes2"]):
    if i:
        sys.stdout.write("\n#####MODULE#####\n")
    argv = ["-c", "mcfg:fresh()"] + ([] if rewriting else ["--disable-type-rewriting"]) + ["stub", mod]
    rc_all |= cli.main(argv, sys.stdout, sys.stderr)
sys.exit(rc_all)
