"""Fresh-interpreter stub generation for C14 (PYTHONHASHSEED set by the parent): prints the stubs of the fixture modules in
canonical order; argv[5] == "rev" generates them in the REVERSE order (what one stub generation leaves behind in the process
must not show in the next one)."""
import io
import sys

db, k, rewriting = sys.argv[1], int(sys.argv[2]), sys.argv[3] == "1"
import mcfg  # noqa: E402
from monkeytype import cli  # noqa: E402

MODS = ["vfx.shapes", "vfx.shapes2", "vfx.twa", "vfx.twb"]
mcfg.reset(db=db, k=k, limit=int(sys.argv[4]) if len(sys.argv) > 4 else None)
rc_all = 0
outs = {}
order = list(reversed(MODS)) if len(sys.argv) > 5 and sys.argv[5] == "rev" else MODS
for mod in order:
    out = io.StringIO()
    argv = ["-c", "mcfg:fresh()"] + ([] if rewriting else ["--disable-type-rewriting"]) + ["stub", mod]
    rc_all |= cli.main(argv, out, sys.stderr)
    outs[mod] = out.getvalue()
sys.stdout.write("\n#####MODULE#####\n".join(outs[m] for m in MODS))
sys.exit(rc_all)
